#!/bin/bash
# re-evaluate every kept seeded change against the check of its own property (quick tier) and record the verdict in its meta.json
# usage: tools_seeded_all.sh [parallel jobs, default 1] ; EXTRA_CHECKS=,C01 adds checks
cd "$(dirname "$0")"
jobs=${1:-1}
one() {
  d=$1
  n=$(basename $d)
  c=${n%%-*}
  if grep -q '"retired"' $d/meta.json; then echo "== $n retired (kept for the record, not evaluated)"; return; fi
  out=$(./tools_seeded.py $d --adopt $n --checks $c${EXTRA_CHECKS:-} 2>&1 | grep -a "CAUGHT\|held\|inconclusive\|error\|apply" | grep -v "^RESULT" | cut -c1-200)
  echo "== $n $out"
}
export -f one
ls -d seeded/*/ | xargs -P $jobs -I{} bash -c 'one {}'
