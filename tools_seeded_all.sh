#!/bin/bash
# re-evaluate every kept seeded change against the check of its own property (quick tier) and record the verdict in its meta.json
cd "$(dirname "$0")"
for d in seeded/*/; do
  n=$(basename $d)
  c=${n%%-*}
  extra=${EXTRA_CHECKS:-}
  echo "== $n"
  if grep -q '"retired"' $d/meta.json; then echo "retired (kept for the record, not evaluated)"; continue; fi
  ./tools_seeded.py $d --adopt $n --checks $c$extra 2>&1 | grep -a "CAUGHT\|held\|inconclusive\|error\|apply" | grep -v "^RESULT" | cut -c1-200
done
