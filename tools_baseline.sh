#!/bin/bash
# run the repo's baseline test suite with the guard off; print pass/fail counts and the failing test ids
cd ${1:-/repo} && env -u ETHOSU_VELA_VERIF /venv/bin/python -m pytest -q -p no:cacheprovider --timeout=900 --continue-on-collection-errors 2>&1 | grep -E "^(FAILED|ERROR)|passed|failed" | tail -12
