#!/venv/bin/python
"""MANIFEST.setup_cmd: build what the framework needs from files on disk only and run engine self-tests."""
import compileall
import os
import sys

HERE = os.path.dirname(os.path.abspath(__file__))
sys.path.insert(0, HERE)
ok = compileall.compile_dir(os.path.join(HERE, "vv"), quiet=1) and compileall.compile_dir(os.path.join(HERE, "checks"), quiet=1)
from vv import repo  # noqa: E402

so = repo.build_codec()
print("codec built:", so)
repo.setup()
from vv import selftest  # noqa: E402

sys.exit(0 if (ok and selftest.run()) else 1)
