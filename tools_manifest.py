#!/venv/bin/python
"""Regenerate MANIFEST.json from the table below (keeps it schema-valid at all times)."""
import json
import os
import sys

HERE = os.path.dirname(os.path.abspath(__file__))
PY = "/venv/bin/python"

CHECKS = {}
NOT_YET = {}


def check(pid, category, text, note, technique, design_ref):
    CHECKS[pid] = dict(category=category, text=text, note=note, technique=technique, design_ref=design_ref)


exec(open(os.path.join(HERE, "manifest_table.py")).read())

props = [json.loads(l)["id"] for l in open(os.path.join(HERE, "properties.jsonl"))]
checks = []
na = []
for pid in props:
    if pid in CHECKS:
        c = CHECKS[pid]
        checks.append({
            "property_id": pid,
            "quick_cmd": "%s check.py %s --tier quick" % (PY, pid),
            "thorough_cmd": "%s check.py %s --tier thorough" % (PY, pid),
            "evidence_file": "evidence/%s.json" % pid,
            "replay_cmd_template": "%s check.py %s --replay {path}" % (PY, pid),
            "engine": "vv",
            "level_claimed": {"category": c["category"], "text": c["text"], "design_ref": c["design_ref"]},
            "level_note": c["note"],
            "technique": c["technique"],
        })
    else:
        na.append({"property_id": pid, "reason": NOT_YET.get(pid, "check not built yet in this session (runtime monitoring applies; see DESIGN.md section 4)")})
m = {
    "version": 1,
    "setup_cmd": "%s setup.py" % PY,
    "hooks": {
        "guard": "ETHOSU_VELA_VERIF",
        "enable": "no source hooks: monitors are installed by the harness at run time (module attribute rebinding); the guard variable is read only by /verif",
        "baseline_off_cmd": "cd /repo && env -u ETHOSU_VELA_VERIF /venv/bin/python -m pytest -ra -q -p no:cacheprovider --timeout=900 --continue-on-collection-errors",
        "source_commits": [],
        "add_only": True,
    },
    "engines": ENGINES,
    "checks": checks,
    "notes": NOTES,
    "not_applicable": na,
}
json.dump(m, open(os.path.join(HERE, "MANIFEST.json"), "w"), indent=1)
print("MANIFEST.json: %d checks, %d not_applicable" % (len(checks), len(na)))
# validate against the task's schemas when they are present (python3-vt has jsonschema)
import subprocess

_v = subprocess.run(["python3-vt", "-c", """
import json, sys, glob
import jsonschema
jsonschema.validate(json.load(open(sys.argv[1])), json.load(open('/root/.vp/MANIFEST.schema.json')))
es = json.load(open('/root/.vp/EVIDENCE.schema.json'))
n = 0
for f in glob.glob(sys.argv[2] + '/evidence/*.json'):
    jsonschema.validate(json.load(open(f)), es); n += 1
print('schemas ok (manifest + %d evidence files)' % n)
""", os.path.join(HERE, "MANIFEST.json"), HERE], capture_output=True, text=True)
print((_v.stdout + _v.stderr).strip()[-600:])
if _v.returncode:
    sys.exit(1)
