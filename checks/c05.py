"""C05 - Tensor allocators never overlap live buffers and report their true footprint.

Direct drive of the three allocators through their real entry points with real Tensor / LiveRange / LiveRangeGraph objects;
O(n^2) oracle with inclusive end times written from the property text; HillClimb iteration bound asserted online by a hook.
The same oracle is wrapped around every allocator call made inside real compilations (part 'pipeline').
"""
import itertools
import os

import numpy as np

PID = "C05"
LEVEL = "exploration"
CASE_TIMEOUT = 900.0


class IterationBoundExceeded(Exception):
    pass


def gen_cases(tier, seed):
    q = tier == "quick"
    cases = []
    n = 16 if q else 48
    for i in range(n):
        cases.append({"part": "small", "shard": i, "nshards": n, "tier": tier, "seed": seed})
    for i in range(n):
        cases.append({"part": "large", "shard": i, "seed": seed, "n": 24 if q else 12, "tier": tier})
    for i in range(n if q else 2 * n):
        cases.append({"part": "pipeline", "seed": seed * 613 + i, "n": 6 if q else 20})
    for i in range(4 if q else 32):
        cases.append({"part": "lindup", "seed": seed * 617 + i, "n": 250 if q else 1500})
    return cases


_pool = []


def tensor_pool(n):
    from ethosu.vela.data_type import DataType
    from ethosu.vela.tensor import MemArea, Tensor

    while len(_pool) < n:
        t = Tensor([16], DataType.uint8, "t%d" % len(_pool))
        t.mem_area = MemArea.Sram
        _pool.append(t)
    return _pool


def build_graph(ranges, equiv=None):
    """ranges: list of (start, end, size, alignment).  equiv: list of (i, j) pairs: tensor j is an equivalent clone of tensor i"""
    from ethosu.vela.live_range import LiveRangeGraph

    from ethosu.vela.tensor import TensorAddressMap

    TensorAddressMap.clear_address_map()  # the pooled Tensor objects are reused between sets
    pool = tensor_pool(len(ranges) + 8)
    g = LiveRangeGraph()
    lrs = []
    for i, (s, e, size, al) in enumerate(ranges):
        t = pool[i]
        t.weight_compression_config = None
        rng = g.get_or_create_range(t, al)
        if i % 3 == 1 and al >= 32:
            # the compiler asks for the range of a CPU/NPU boundary tensor twice (first with the CPU tensor alignment, later with the default): the largest
            # alignment ever requested for a range is the requested alignment
            again = g.get_or_create_range(t, al // 2) if i % 2 else g.get_or_create_range(t)
            assert again is rng
        rng.size = size
        rng.start_time, rng.end_time = s, e
        lrs.append(rng)
    return g, lrs


def oracle(ranges, addrs, total, kind, granule):
    """returns list of (clause, message)"""
    bad = []
    n = len(ranges)
    for i in range(n):
        s, e, size, al = ranges[i]
        a = addrs[i]
        if a is None or a < 0:
            bad.append(("address-not-assigned", "range %d has no address" % i))
            continue
        if a % al != 0:
            bad.append(("alignment", "range %d: address %d not a multiple of its alignment %d" % (i, a, al)))
    for i in range(n):
        for j in range(i + 1, n):
            s1, e1, z1, _ = ranges[i]
            s2, e2, z2, _ = ranges[j]
            if max(s1, s2) <= min(e1, e2):  # alive at a common time step (end inclusive)
                a1, a2 = addrs[i], addrs[j]
                if a1 is None or a2 is None:
                    continue
                if max(a1, a2) < min(a1 + z1, a2 + z2):
                    bad.append(("overlap", "ranges %d %s@%d and %d %s@%d are live together and overlap" % (i, ranges[i], a1, j, ranges[j], a2)))
    max_end = max((a + r[2]) for a, r in zip(addrs, ranges) if a is not None and a >= 0) if ranges else 0
    if total < max_end:
        bad.append(("total-under-reported", "reported total %d < highest end address %d" % (total, max_end)))
    elif total >= max_end + granule:
        bad.append(("total-over-reported", "reported total %d >= highest end address %d + granule %d" % (total, max_end, granule)))
    if kind == "HillClimb":
        tmax = max(r[1] for r in ranges)
        peak = max(sum(r[2] for r in ranges if r[0] <= t <= r[1]) for t in range(tmax + 1))
        if total < peak:
            bad.append(("below-peak", "hillclimb footprint %d below peak live size %d" % (total, peak)))
    return bad


class HCMonitor:
    """online iteration-bound monitor for HillClimbAllocator (hooks attempt_bottleneck_fix / allocate_indices)"""

    def __init__(self):
        self.installed = False
        self.calls = 0

    def install(self):
        import ethosu.vela.hillclimb_allocation as hc

        if self.installed:
            return
        cls = hc.HillClimbAllocator
        mon = self
        orig_fix, orig_alloc = cls.attempt_bottleneck_fix, cls.allocate_indices

        def fix(self_, indices, iterations_stuck):
            st = mon.state.setdefault(id(self_), {"iters": 0, "best": None, "last_impr": 0, "max_iter": self_.max_iterations})
            st["iters"] += 1
            mon.calls += 1
            # the bound the caller asked for (the limit handed to the entry point; None = the documented default), not what the object made of it
            asked = getattr(mon, "requested", "unset")
            limit = self_.max_iterations if asked == "unset" else (99999 if asked is None else int(asked))
            bound = max(limit, st["last_impr"] + self_.MIN_ITERATIONS_IMPROVE)
            if st["iters"] > bound + 1:
                raise IterationBoundExceeded("iteration %d exceeds max(max_iterations=%d, last improvement %d + %d)" % (st["iters"], limit, st["last_impr"], self_.MIN_ITERATIONS_IMPROVE))
            return orig_fix(self_, indices, iterations_stuck)

        def alloc(self_, indices):
            r = orig_alloc(self_, indices)
            st = mon.state.setdefault(id(self_), {"iters": 0, "best": None, "last_impr": 0, "max_iter": self_.max_iterations})
            if st["best"] is None or r < st["best"]:
                if st["best"] is not None:
                    st["last_impr"] = st["iters"] - 1
                st["best"] = r
            return r

        cls.attempt_bottleneck_fix = fix
        cls.allocate_indices = alloc
        self.state = {}
        self.installed = True


MON = HCMonitor()


def run_alloc(kind, ranges, granule, max_iter, mem_limit):
    """-> (addresses, total, error)"""
    import ethosu.vela.greedy_allocation as ga
    import ethosu.vela.tensor_allocation as ta
    from ethosu.vela.errors import AllocationError

    g, lrs = build_graph(ranges)
    MON.state = {}
    try:
        if kind == "Greedy":
            total = ga.allocate_live_ranges(g, granule)
        elif kind == "LinearAlloc":
            total = ta.linear_allocate_live_ranges(g, granule)
        else:
            import contextlib
            import io

            MON.requested = max_iter
            try:
                with contextlib.redirect_stdout(io.StringIO()):
                    total = ta.hillclimb_allocate_live_ranges(g, granule, max_iter, mem_limit)
            finally:
                MON.requested = "unset"
    except IterationBoundExceeded as e:
        return None, None, ("iteration-bound", str(e))
    except AllocationError as e:
        return None, None, ("allocation-error-on-valid-input", str(e.data)[:200])
    except Exception as e:
        return None, None, ("exception:" + type(e).__name__, str(e)[:200])
    addrs = [lr.tensors[0].address for lr in lrs]
    return addrs, int(total), None


def check_set(ranges, viol, counters, keys, rng=None, hc_variants=((None, 1 << 40),)):
    granule = max(r[3] for r in ranges)
    for kind in ("Greedy", "LinearAlloc", "HillClimb"):
        variants = hc_variants if kind == "HillClimb" else ((None, None),)
        for max_iter, mem_limit in variants:
            # LinearAlloc/Greedy take one allocation granularity; ranges carry their own alignment (>= 16, multiples)
            addrs, total, err = run_alloc(kind, ranges, granule if kind != "HillClimb" else 16, max_iter, mem_limit)
            counters["allocator_calls"] += 1
            counters["calls_" + kind] = counters.get("calls_" + kind, 0) + 1
            if err:
                mech = "%s:%s" % (kind, err[0])
                viol.setdefault(mech, {"mech": mech, "msg": err[1], "witness": {"ranges": ranges, "allocator": kind, "max_iter": max_iter, "mem_limit": mem_limit}})
                continue
            if kind == "LinearAlloc":
                # LinearAlloc gives every range its own slot; alignment = the single granularity it is called with
                rr = [(s, e, z, granule) for (s, e, z, _) in ranges]
                bad = oracle(rr, addrs, total, kind, granule)
            elif kind == "Greedy":
                bad = oracle(ranges, addrs, total, kind, granule)
            else:
                bad = oracle(ranges, addrs, total, kind, 1)
            for clause, msg in bad:
                mech = "%s:%s" % (kind, clause)
                viol.setdefault(mech, {"mech": mech, "msg": msg, "witness": {"ranges": ranges, "allocator": kind, "addresses": addrs, "total": total,
                                                                            "max_iter": max_iter, "mem_limit": mem_limit}})
    tmax = max(r[1] for r in ranges)
    live3 = any(sum(1 for r in ranges if r[0] <= t <= r[1]) >= 3 for t in range(tmax + 1))
    if live3:
        counters["sets_with_3_live"] += 1


def run_small(case):
    MON.install()
    viol = {}
    counters = {"allocator_calls": 0, "sets_with_3_live": 0, "small_sets": 0, "hc_iterations_observed": 0}
    keys = []
    T = 4
    intervals = [(s, e) for s in range(T) for e in range(s, T)]
    sizes = [1, 16, 48, 100, 256]
    aligns = [16, 64]
    opts = [(s, e, z, a) for (s, e) in intervals for z in sizes for a in aligns]
    sh, ns, tier = case["shard"], case["nshards"], case["tier"]
    rng = np.random.default_rng(np.random.SeedSequence([5, case["seed"], sh]))
    c0 = MON.calls
    sample = None
    # n = 2 exhaustive
    idx = 0
    for combo in itertools.product(opts, repeat=2):
        idx += 1
        if idx % ns != sh:
            continue
        if tier == "quick" and (idx // ns) % 2:
            continue
        check_set(list(combo), viol, counters, keys)
        counters["small_sets"] += 1
    # n = 3: exhaustive in thorough over a reduced lattice, stratified in quick
    opts3 = [(s, e, z, a) for (s, e) in intervals for z in (16, 48, 100) for a in (16, 64)]
    idx = 0
    step = 40 if tier == "quick" else 4
    for combo in itertools.product(opts3, repeat=3):
        idx += 1
        if idx % ns != sh or (idx // ns) % step:
            continue
        check_set(list(combo), viol, counters, keys)
        counters["small_sets"] += 1
        if sample is None:
            sample = {"ranges(start,end,size,align)": list(combo)}
    # n = 4, 5 random over the full lattice with 5 time steps and alignments 16..128
    intervals5 = [(s, e) for s in range(5) for e in range(s, 5)]
    nrand = 1500 if tier == "quick" else 8000
    for _ in range(nrand):
        n = int(rng.integers(4, 6))
        rs = []
        for _ in range(n):
            s, e = intervals5[int(rng.integers(0, len(intervals5)))]
            rs.append((s, e, int(rng.choice(sizes)), int(rng.choice([16, 32, 64, 128]))))
        check_set(rs, viol, counters, keys, hc_variants=((None, 1 << 40), (int(rng.choice([0, 1, 50])), int(rng.choice([0, 256, 1 << 40])))))
        counters["small_sets"] += 1
    counters["hc_iterations_observed"] = MON.calls - c0
    return {"violations": list(viol.values()), "counters": counters, "keys": ["small:%d" % sh], "sample": sample}


def run_large(case):
    MON.install()
    viol = {}
    counters = {"allocator_calls": 0, "sets_with_3_live": 0, "large_sets": 0, "hc_iterations_observed": 0}
    rng = np.random.default_rng(np.random.SeedSequence([55, case["seed"], case["shard"]]))
    c0 = MON.calls
    sample = None
    for k in range(case["n"]):
        n = int(rng.integers(20, 100 if case["tier"] == "quick" else 300))
        T = int(rng.integers(5, max(6, n)))
        style = int(rng.integers(0, 4))
        rs = []
        for i in range(n):
            if style == 0:  # bursty
                s = int(rng.integers(0, T))
                e = min(T - 1, s + int(rng.integers(0, 3)))
            elif style == 1:  # long-lived mixed
                s = int(rng.integers(0, T))
                e = int(rng.integers(s, T))
            elif style == 2:  # equal start times
                s = int(rng.choice([0, T // 2]))
                e = int(rng.integers(s, T))
            else:  # chain-like (feature maps)
                s = min(T - 1, i * T // n)
                e = min(T - 1, s + int(rng.integers(1, 4)))
            size = int(rng.choice([1, 7, 16, 100, 1000, 4096, 12345, int(rng.integers(1, 70000))]))
            rs.append((s, e, size, int(rng.choice([16, 16, 16, 32, 64, 128]))))
        tmax = max(r[1] for r in rs)
        peak = max(sum(r[2] for r in rs if r[0] <= t <= r[1]) for t in range(tmax + 1))
        lim = int(rng.choice([0, peak // 2, peak, peak + 4096, 1 << 40]))
        it = int(rng.choice([0, 1, 50, 2000])) if case["tier"] != "quick" else int(rng.choice([0, 1, 50]))
        check_set(rs, viol, counters, None, hc_variants=((it, lim),))
        counters["large_sets"] += 1
        if sample is None:
            sample = {"n_ranges": n, "time_steps": T, "style": style, "mem_limit": lim, "max_iterations": it, "first_ranges": rs[:4]}
    counters["hc_iterations_observed"] = MON.calls - c0
    return {"violations": list(viol.values()), "counters": counters, "keys": ["large:%d" % case["shard"]], "sample": sample}


def run_pipeline(case):
    """wrap the oracle around every allocator call made inside real compilations"""
    import ethosu.vela.tensor_allocation as ta
    from vv import cfggen, compile as vc, netgen, tflw

    MON.install()
    viol = {}
    counters = {"pipeline_allocator_calls": 0, "pipeline_compilations": 0, "pipeline_ranges": 0, "allocator_calls": 0, "sets_with_3_live": 0}
    rng = np.random.default_rng(np.random.SeedSequence([555, case["seed"]]))
    origs = {n: getattr(ta, n) for n in ("greedy_allocate_live_ranges", "linear_allocate_live_ranges", "hillclimb_allocate_live_ranges")}
    sample = None

    def wrap(name, kind):
        orig = origs[name]

        def w(live_ranges, alignment, *a, **k):
            total = orig(live_ranges, alignment, *a, **k)
            counters["pipeline_allocator_calls"] += 1
            lrs = list(live_ranges.lrs)
            ranges, addrs = [], []
            for lr in lrs:
                ranges.append((lr.start_time, lr.end_time, int(np.ceil(lr.size)), 1))
                ad = {t.address for t in lr.tensors}
                addrs.append(lr.tensors[0].address if len(ad) == 1 else None)
                if len(ad) != 1:
                    mech = kind + ":pipeline:tensors-of-one-range-at-different-addresses"
                    viol.setdefault(mech, {"mech": mech, "msg": "live range %s has tensors at %s" % (lr.name, sorted(ad)), "witness": {}})
            counters["pipeline_ranges"] += len(ranges)
            if kind == "LinearAlloc":
                # duplicates (equal compression configs / equivalent LUTs) legitimately share an address: drop exact duplicates
                seen = {}
                r2, a2 = [], []
                for r, a in zip(ranges, addrs):
                    if a in seen and seen[a] == r[2]:
                        continue
                    seen[a] = r[2]
                    r2.append(r)
                    a2.append(a)
                ranges, addrs = r2, a2
            bad = oracle(ranges, addrs, int(total), kind, alignment if kind != "HillClimb" else 1) if ranges else []
            for clause, msg in bad:
                if clause == "alignment":
                    continue
                mech = "%s:pipeline:%s" % (kind, clause)
                viol.setdefault(mech, {"mech": mech, "msg": msg, "witness": {"ranges": ranges[:50], "addresses": addrs[:50], "total": int(total)}})
            return total

        return w

    ta.greedy_allocate_live_ranges = wrap("greedy_allocate_live_ranges", "Greedy")
    ta.linear_allocate_live_ranges = wrap("linear_allocate_live_ranges", "LinearAlloc")
    ta.hillclimb_allocate_live_ranges = wrap("hillclimb_allocate_live_ranges", "HillClimb")
    try:
        for t in range(case["n"]):
            fam = ["exact-chain", "exact-dag", "stripe-stress", "alias-stress", "buffer-stress", "cpu-mix", "shared-weights", "lut-stress"][int(rng.integers(0, 8))]
            net = netgen.make(fam, case["seed"] * 100 + t)
            cfg = cfggen.rand_cfg(rng)
            cfg["allocator"] = cfggen.ALLOCS[t % 3]
            d = os.path.join(case["sdir"], "p%d_%d" % (case["seed"], t))
            os.makedirs(d, exist_ok=True)
            mp = os.path.join(d, "n.tflite")
            open(mp, "wb").write(tflw.build(net))
            res = vc.run_inproc(mp, cfg, os.path.join(d, "o"))
            import ethosu.vela.tensor as tmod

            tmod.TensorAddressMap.clear_address_map()
            counters["pipeline_compilations"] += 1
            if sample is None:
                sample = {"pipeline": fam, "cfg": cfggen.cfg_key(cfg), "rc": res.rc}
            import shutil

            shutil.rmtree(d, ignore_errors=True)
    finally:
        for n, f in origs.items():
            setattr(ta, n, f)
    return {"violations": list(viol.values()), "counters": counters, "keys": ["pipe:%d" % case["seed"]], "sample": sample}


def run_linear_dups(case):
    """LinearAlloc with duplicate constants (the allocator of permanent storage): tensors with an equal weight compression configuration and equivalent
    lookup tables are declared equivalent and must share the address of the first copy; everything else gets its own slot; the total is the highest end"""
    import ethosu.vela.tensor_allocation as ta
    from ethosu.vela.data_type import DataType
    from ethosu.vela.live_range import LiveRangeGraph
    from ethosu.vela.tensor import MemArea, MemType, Tensor, TensorAddressMap, TensorPurpose
    from ethosu.vela.weight_compressor import NpuWeightTensor, ScaleCompressionConfig, WeightCompressionConfig

    rng = np.random.default_rng(np.random.SeedSequence([5150, case["seed"]]))
    viol = {}
    counters = {"allocator_calls": 0, "sets_with_3_live": 0, "linear_duplicate_sets": 0, "linear_duplicates_placed": 0, "linear_duplicates_followed_by_new_tensor": 0}
    sample = None
    for si in range(case["n"]):
        TensorAddressMap.clear_address_map()
        gran = int(rng.choice([16, 16, 32, 64, 256]))
        n = int(rng.integers(3, 14))
        g = LiveRangeGraph()
        items = []  # (name, tensor, size, original index or None)
        for i in range(n):
            dup_of = None
            cands = [j for j, it in enumerate(items) if it[3] is None]
            if cands and rng.random() < 0.35:
                dup_of = int(rng.choice(cands))
            if dup_of is not None:
                size = items[dup_of][2]
                lut = items[dup_of][1].purpose == TensorPurpose.LUT
            else:
                size = int(rng.choice([1, 16, 100, 256, 1000, 1024, 2048, 4100]))
                lut = rng.random() < 0.3
            if lut:
                t = Tensor([1, 1, 1, size], DataType.uint8, "lut%d" % i)
                t.purpose = TensorPurpose.LUT
                if dup_of is not None:
                    t.equivalence_id = items[dup_of][1].equivalence_id
            else:
                t = NpuWeightTensor("w%d" % i)
                t.set_all_shapes([1, 1, 1, size])
                t.purpose = TensorPurpose.Weights
                key = "w%d" % (dup_of if dup_of is not None else i)
                t.weight_compression_config = WeightCompressionConfig("ConvolutionMxN", 16, 1234, (1, 1), key, 8, False)
                t.scale_compression_config = ScaleCompressionConfig(key, 0.5, 0.25)
            t.mem_area, t.mem_type = MemArea.OffChipFlash, MemType.Permanent_NPU
            lr = g.get_or_create_range(t)
            lr.mark_usage(0, 10)
            items.append((t.name, t, size, dup_of))
        wit = {"granule": gran, "tensors": [(nm, sz, d) for nm, _, sz, d in items]}
        try:
            total = int(ta.linear_allocate_live_ranges(g, gran))
        except Exception as e:
            mech = "LinearAlloc:duplicates:exception:" + type(e).__name__
            viol.setdefault(mech, {"mech": mech, "msg": str(e)[:200], "witness": wit})
            continue
        counters["allocator_calls"] += 1
        counters["linear_duplicate_sets"] += 1 if any(it[3] is not None for it in items) else 0
        counters["linear_duplicates_placed"] += sum(1 for it in items if it[3] is not None)
        counters["linear_duplicates_followed_by_new_tensor"] += sum(1 for k, it in enumerate(items) if it[3] is not None and any(x[3] is None for x in items[k + 1:]))
        wit["addresses"] = [int(t.address) for _, t, _, _ in items]
        wit["total"] = total

        def v(clause, msg):
            mech = "LinearAlloc:duplicates:" + clause
            viol.setdefault(mech, {"mech": mech, "msg": msg, "witness": wit})

        uniq = [(nm, int(t.address), sz) for nm, t, sz, d in items if d is None]
        for nm, t, sz, d in items:
            if t.address % gran:
                v("alignment", "%s at %d is not a multiple of the granularity %d" % (nm, t.address, gran))
            if d is not None and t.address != items[d][1].address:
                v("equivalent-tensors-at-different-addresses", "%s (duplicate of %s) is at %d, the original at %d" % (nm, items[d][0], t.address, items[d][1].address))
        for a in range(len(uniq)):
            for b in range(a + 1, len(uniq)):
                if max(uniq[a][1], uniq[b][1]) < min(uniq[a][1] + uniq[a][2], uniq[b][1] + uniq[b][2]):
                    v("overlap", "%s [%d,%d) and %s [%d,%d) overlap" % (uniq[a][0], uniq[a][1], uniq[a][1] + uniq[a][2], uniq[b][0], uniq[b][1], uniq[b][1] + uniq[b][2]))
        max_end = max(a + sz for _, a, sz in uniq)
        if total < max_end:
            v("total-under-reported", "reported total %d < highest end address %d" % (total, max_end))
        elif total >= max_end + gran:
            v("total-over-reported", "reported total %d >= highest end address %d + granule %d" % (total, max_end, gran))
        if len(uniq) >= 3:
            counters["sets_with_3_live"] += 1
        if sample is None and any(it[3] is not None for it in items):
            sample = {"linear_duplicates": wit}
    return {"violations": list(viol.values()), "counters": counters, "keys": ["lindup:%d" % case["seed"]], "sample": sample}


def run_case(case):
    return {"small": run_small, "large": run_large, "pipeline": run_pipeline, "lindup": run_linear_dups}[case["part"]](case)


def summarise(agg, tier):
    q = tier == "quick"
    c = agg.counters
    return {
        "thresholds": {"allocator_calls": 60000 if q else 700000, "sets_with_3_live": 5000 if q else 100000, "large_sets": 300 if q else 400,
                       "pipeline_allocator_calls": 100 if q else 2000, "hc_iterations_observed": 1000 if q else 100000,
                       "linear_duplicates_followed_by_new_tensor": 500 if q else 20000},
        "distinct_nontrivial": c.get("sets_with_3_live", 0),
        "rule": "live-range sets: all ordered pairs over (10 intervals x 5 sizes x 2 alignments), ordered triples over a reduced lattice (stratified in quick, "
                "exhaustive/4 in thorough), random 4-5 range sets over 5 time steps / alignments 16..128, random 20-300 (quick: 20-100) range sets in four lifetime styles x memory "
                "limits below/at/above the peak x iteration limits {0,1,50,2000}; each set goes through Greedy, LinearAlloc and HillClimb; LinearAlloc additionally with duplicate constants (equal weight compression configs, equivalent lookup tables) at random positions, which must share the first copy's address. non-trivial = at least 3 "
                "ranges live at one time step (counted)",
        "assumptions": ["LinearAlloc is judged with the single granularity it is called with; Greedy/HillClimb with per-range alignments",
                        "reported total is accepted in [max_end, max_end + granule) for Greedy/LinearAlloc (their own rounding), exactly max_end for HillClimb",
                        "HillClimb iteration bound = max(max_iterations, last strict improvement + MIN_ITERATIONS_IMPROVE), asserted online by a hook"],
    }
