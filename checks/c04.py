"""C04 - Conflicting NPU/DMA accesses are always separated by a wait or block dependency (offline trace checker)."""
import os

import numpy as np

from vv import decode, hazard, isa, opgen

PID = "C04"
LEVEL = "exploration"
CASE_TIMEOUT = 900.0
ACCS = list(isa.ACCEL)


def gen_cases(tier, seed):
    q = tier == "quick"
    cases = []
    for i in range(64 if q else 512):
        cases.append({"part": "direct", "seed": seed * 4001 + i, "lists": 30 if q else 150})
    for i in range(32 if q else 192):
        cases.append({"part": "pipeline", "seed": seed * 4003 + i, "n": 6 if q else 16})
    for i in range(4 if q else 48):
        # appended later (rank-changing memory-only operators, EXP / SQUARED_DIFFERENCE lowerings): own cases, so that the earlier ones denote what they always did
        cases.append({"part": "pipeline", "seed": seed * 4003 + 100000 + i, "n": 6 if q else 16, "fams": ["shape-ops", "approx-tail2", "grouped-conv"]})
    return cases


def report(findings, viol, where, wit, part="direct"):
    for f in findings:
        mech = "%s:unguarded-conflict:%s:%s:%s" % (part, f["kind"], f["clause"], "shram" if f["region"] == "shram" else "external")
        if f.get("cur"):
            mech += ":%s-after-%s" % (f["cur"].replace("/None", ""), f["prev"].replace("/None", ""))
            if f.get("aliased_ifm_tiles"):
                mech += ":aliased-ifm-tiles"
        viol.setdefault(mech, {"mech": mech, "msg": "%s: %s on region %s bytes %s between [%s] and [%s]" % (where, f["clause"], f["region"], f["range"], f["earlier"], f["later"]), "witness": wit})


def run_direct(case):
    from ethosu.vela import api

    rng = np.random.default_rng(np.random.SeedSequence([4, case["seed"]]))
    viol = {}
    counters = {"streams_checked": 0}
    keys = []
    sample = None
    for li in range(case["lists"]):
        acc = ACCS[int(rng.integers(0, 6))]
        g = opgen.Gen(rng, acc, pool_size=int(rng.choice([2, 3, 4])), max_hw=16)  # few buffers -> frequent conflicts
        n = int(rng.integers(2, 41))
        specs = []
        for _ in range(n):
            k = rng.integers(0, 10)
            if k < 3:
                specs.append(g.dma())
            elif k < 6:
                specs.append(g.elementwise())
            elif k < 8:
                specs.append(g.conv_like("conv"))
            elif k < 9:
                specs.append(g.conv_like("pool"))
            else:
                specs.append(g.conv_like("depthwise"))
        ops = []
        for s in specs:
            try:
                op, cfgs = opgen.to_api(s, acc)
            except AssertionError:
                continue
            if cfgs is not None:
                op.block_config = cfgs[int(rng.integers(0, len(cfgs)))]
            ops.append(op)
        if len(ops) < 2:
            continue
        try:
            words = api.npu_generate_register_command_stream(ops, api.NpuAccelerator[opgen.ACC_API[acc]])
        except Exception as e:
            counters["lists_rejected"] = counters.get("lists_rejected", 0) + 1
            continue
        events, info = decode.decode_stream(words)
        counters["streams_checked"] += 1
        wit = {"seed": case["seed"], "list": li, "acc": acc, "n_ops": len(ops)}
        findings = hazard.check_stream(events, acc, counters)
        report(findings, viol, "list %d on %s" % (li, acc), wit)
        keys.append("d:%s:%d" % (acc, len(ops)))
        if sample is None:
            sample = {"acc": acc, "ops": [(s["kind"], s.get("sub")) for s in specs][:10], "waits": [(e.kind, e.n) for e in events if e.kind in ("kwait", "dwait")][:8]}
    return {"violations": list(viol.values()), "counters": counters, "keys": keys, "sample": sample}


def run_pipeline(case):
    from vv import campaign, cfggen, compile as vc, netgen, tflw

    rng = np.random.default_rng(np.random.SeedSequence([44, case["seed"]]))
    viol = {}
    counters = {"pipeline_streams_checked": 0}
    keys = []
    log = vc.StreamLog().install()
    single = case.get("model_z") and case.get("wcfg")  # replay of one witness: the recorded model and configuration, not the regenerated batch
    for t in range(1 if single else case["n"]):
        if single:
            fam, cfg, model = case.get("wfamily", "?"), case["wcfg"], campaign.unpack_model(case["model_z"])
        else:
            fam = ["exact-chain", "exact-dag", "stripe-stress", "approx-tail", "lut-stress", "alias-stress", "buffer-stress", "lut-stress"][int(rng.integers(0, 8))]
            if case.get("fams"):
                fam = case["fams"][t % len(case["fams"])]
            net = netgen.make(fam, case["seed"] * 50 + t)
            cfg = cfggen.rand_cfg(rng)
            model = tflw.build(net)
        d = os.path.join(case["sdir"], "p%d_%d" % (case["seed"], t))
        os.makedirs(d, exist_ok=True)
        mp = os.path.join(d, "n.tflite")
        open(mp, "wb").write(model)
        del log.calls[:]
        vc.run_inproc(mp, cfg, os.path.join(d, "o"))
        import ethosu.vela.tensor as tmod

        tmod.TensorAddressMap.clear_address_map()
        for call in log.calls:
            events, info = decode.decode_stream(call["words"])
            c2 = {}
            findings = hazard.check_stream(events, cfg["acc"], c2)
            for k, v in c2.items():
                counters["pipeline_" + k] = counters.get("pipeline_" + k, 0) + v
            counters["pipeline_streams_checked"] += 1
            wit = {"family": fam, "nseed": case["seed"] * 50 + t, "cfg": cfg}
            if findings:
                wit["model_z"] = campaign.pack_model(model)
            report(findings, viol, "%s on %s" % (fam, cfg["acc"]), wit, part="pipeline")
            keys.append("p:%s:%s" % (fam, cfg["acc"]))
        import shutil

        shutil.rmtree(d, ignore_errors=True)
    return {"violations": list(viol.values()), "counters": counters, "keys": keys, "sample": {"pipeline_hook_evaluations": log.evals}}


def run_case(case):
    return {"direct": run_direct, "pipeline": run_pipeline}[case["part"]](case)


def summarise(agg, tier):
    q = tier == "quick"
    return {
        "thresholds": {"streams_checked": 1000 if q else 50000, "guarded_conflicts": 2000 if q else 100000, "guarded_by_kernel_wait": 200 if q else 10000,
                       "guarded_by_dma_wait": 200 if q else 10000, "guarded_by_blockdep": 200 if q else 10000, "guarded_dma_to_shram": 20 if q else 500,
                       "blockdep_job_pairs_examined": 1000 if q else 50000, "pipeline_streams_checked": 110 if q else 2000, "pipeline_guarded_conflicts": 100 if q else 3000},
        "rule": "direct: random DMA/kernel interleavings of length 2..40 over a pool of 2-4 buffers per region (conflicts are frequent), random layouts, tiles, strides, block "
                "configs, LUT DMAs into SHRAM, U55 and U65 outstanding limits; pipeline: every stream of real compilations (cascades, weight DMAs, LUT DMAs). The checker "
                "simulates both queues from the emitted waits and enumerates block-job pairs allowed by the emitted BLOCKDEP; guarded_* counters are conflicts that exist and are "
                "separated by an emitted wait / reduced blockdep (a run without them is inconclusive). distinct = (accelerator, list length) classes",
        "assumptions": ["execution model as stated in the property (two FIFO queues, bounded outstanding counts, oldest retires first, BLOCKDEP = max overlapping block jobs)",
                        "SHRAM writes of a kernel = its IFM buffer [bank 2, IB_END) and accumulators [AB_START, end of usable banks); table reads = the slot selected by ACTIVATION",
                        "block jobs: OFM blocks Z->X->Y, IFM-depth sub-jobs for convolutions, OFM written with the last sub-job"],
    }
