"""C18 - System configuration and memory mode resolve as documented (reference resolver vs ArchitectureFeatures and the CLI)."""
import configparser
import contextlib
import io
import os
import re

import numpy as np

PID = "C18"
LEVEL = "exploration"
CASE_TIMEOUT = 900.0

AREAS = ["Sram", "Dram", "OnChipFlash", "OffChipFlash"]
PORTS = ["Axi0", "Axi1"]
MAX_OFF = {"u55": 1 << 32, "u65": 1 << 40}  # 1 << AXI address width (frozen)
ACCS = ["ethos-u55-32", "ethos-u55-64", "ethos-u55-128", "ethos-u55-256", "ethos-u65-256", "ethos-u65-512"]


class Reject(Exception):
    pass


def ref_read(cfg, section, key, visited=None):
    """transitive inherit, child overrides parent; returns string or None"""
    visited = visited or []
    if section not in cfg:
        raise Reject("section %s not found" % section)
    if section in visited:
        raise Reject("inheritance recursion at %s" % section)
    val = None
    if "inherit" in cfg[section]:
        val = ref_read(cfg, cfg[section]["inherit"], key, visited + [section])
    if key in cfg[section]:
        val = cfg[section][key]
    return val


def ref_resolve(cfg, sysname, memname, acc, cli_cache):
    """cfg: dict section -> dict or None (no files).  Returns dict of expected attributes or raises Reject."""
    fam = "u65" if "u65" in acc else "u55"
    out = {}
    clock = {a: 1.0 for a in AREAS}
    burst = {a: 1 for a in AREAS}
    rlat = {a: 0 for a in AREAS}
    wlat = {a: 0 for a in AREAS}
    core_clock, axi0, axi1 = 1.0, "Sram", "Sram"
    ssec = "System_Config." + sysname
    if cfg is not None and ssec in cfg:
        def rd(key, cur):
            v = ref_read(cfg, ssec, key)
            return cur if v is None else v

        try:
            core_clock = float(rd("core_clock", core_clock))
        except ValueError:
            raise Reject("bad core_clock")
        axi0, axi1 = rd("axi0_port", axi0), rd("axi1_port", axi1)
        if axi0 not in AREAS or axi1 not in AREAS:
            raise Reject("illegal port memory name")
        for a in (axi0, axi1):
            try:
                clock[a] = float(rd(a + "_clock_scale", clock[a]))
                burst[a] = int(rd(a + "_burst_length", burst[a]))
                rlat[a] = int(rd(a + "_read_latency", rlat[a]))
                wlat[a] = int(rd(a + "_write_latency", wlat[a]))
            except ValueError:
                raise Reject("bad numeric option")
    elif sysname == "internal-default":
        if fam == "u65":
            core_clock, axi0, axi1 = 1e9, "Sram", "Dram"
            clock.update(Sram=1.0, Dram=0.75)
            burst.update(Sram=32, Dram=128)
            rlat.update(Sram=32, Dram=500)
            wlat.update(Sram=32, Dram=250)
        else:
            core_clock, axi0, axi1 = 500e6, "Sram", "OffChipFlash"
            clock.update(Sram=1.0, OffChipFlash=0.125)
            burst.update(Sram=32, OffChipFlash=128)
            rlat.update(Sram=32, OffChipFlash=64)
            wlat.update(Sram=32, OffChipFlash=64)
    else:
        raise Reject("system config section not found")
    msec = "Memory_Mode." + memname
    const, arena, cache = "Axi0", "Axi0", "Axi0"
    cache_size = MAX_OFF[fam]
    if cfg is not None and msec in cfg:
        def rdm(key, cur):
            v = ref_read(cfg, msec, key)
            return cur if v is None else v

        const, arena, cache = rdm("const_mem_area", const), rdm("arena_mem_area", arena), rdm("cache_mem_area", cache)
        if any(p not in PORTS for p in (const, arena, cache)):
            raise Reject("illegal port name")
        try:
            cache_size = int(rdm("arena_cache_size", cache_size))
        except ValueError:
            raise Reject("bad arena_cache_size")
    elif memname == "internal-default":
        if fam == "u65":
            const, arena, cache, cache_size = "Axi1", "Axi1", "Axi0", 384 * 1024
        else:
            const, arena, cache, cache_size = "Axi1", "Axi0", "Axi0", MAX_OFF[fam]
    else:
        raise Reject("memory mode section not found")
    port = {"Axi0": axi0, "Axi1": axi1}
    if port[const] == "Sram" and const == arena == cache:
        if const == "Axi0":
            const, axi1 = "Axi1", "OnChipFlash"
        else:
            const, axi0 = "Axi0", "OnChipFlash"
        port = {"Axi0": axi0, "Axi1": axi1}
        clock["OnChipFlash"], burst["OnChipFlash"], rlat["OnChipFlash"], wlat["OnChipFlash"] = clock["Sram"], burst["Sram"], rlat["Sram"], wlat["Sram"]
    if cli_cache is not None:
        cache_size = cli_cache
    if port[const] not in ("Dram", "OnChipFlash", "OffChipFlash"):
        raise Reject("const_mem_area maps to %s" % port[const])
    if port[arena] not in ("Sram", "Dram"):
        raise Reject("arena_mem_area maps to %s" % port[arena])
    if port[cache] != "Sram":
        raise Reject("cache_mem_area maps to %s" % port[cache])
    if cache_size < 0 or cache_size > MAX_OFF[fam]:
        raise Reject("arena_cache_size out of range")
    out.update(core_clock=core_clock, axi0_port=axi0, axi1_port=axi1, const_mem_area=const, arena_mem_area=arena, cache_mem_area=cache,
               arena_cache_size=cache_size, permanent=port[const], feature_map=port[arena], fast=port[cache],
               spilling=(port[cache] == "Sram" and cache != arena))
    for a in AREAS:
        out[a + "_clock_scale"], out[a + "_burst_length"], out[a + "_read_latency"], out[a + "_write_latency"] = clock[a], burst[a], rlat[a], wlat[a]
    return out


def observe(arch):
    from ethosu.vela.tensor import BandwidthDirection, MemArea

    o = dict(core_clock=float(arch.core_clock), axi0_port=arch.axi0_port.name, axi1_port=arch.axi1_port.name, const_mem_area=arch.const_mem_area.name,
             arena_mem_area=arch.arena_mem_area.name, cache_mem_area=arch.cache_mem_area.name, arena_cache_size=int(arch.arena_cache_size),
             permanent=arch.permanent_storage_mem_area.name, feature_map=arch.feature_map_storage_mem_area.name, fast=arch.fast_storage_mem_area.name,
             spilling=bool(arch.is_spilling_enabled()))
    for a in AREAS:
        m = MemArea[a]
        o[a + "_clock_scale"] = float(arch.memory_clock_scales[m])
        o[a + "_burst_length"] = int(arch.memory_burst_length[m])
        o[a + "_read_latency"] = int(arch.memory_latency[m][BandwidthDirection.Read])
        o[a + "_write_latency"] = int(arch.memory_latency[m][BandwidthDirection.Write])
    return o


def gen_ini(rng, hostile):
    """-> (text, sections dict, list of system names, list of memory names, tags)"""
    secs = {}
    tags = set()
    nsys, nmem = int(rng.integers(1, 4)), int(rng.integers(1, 4))
    for part, n in (("System_Config", nsys), ("Memory_Mode", nmem)):
        depth = int(rng.integers(0, 5))
        prev = None
        for i in range(n + depth):
            name = "%s.%s%d" % (part, "S" if part[0] == "S" else "M", i)
            d = {}
            if part == "System_Config":
                keys = ["core_clock", "axi0_port", "axi1_port"] + [a + s for a in AREAS for s in ("_clock_scale", "_burst_length", "_read_latency", "_write_latency")]
                for k in keys:
                    if rng.random() < (0.75 if prev is None else 0.3):
                        if k == "core_clock":
                            d[k] = str(rng.choice(["200e6", "500e6", "1e9", "123456789"]))
                        elif k.endswith("_port"):
                            d[k] = str(rng.choice(["Dram", "OffChipFlash", "OnChipFlash", "Dram", "Sram"] if k == "axi1_port" else ["Sram", "Sram", "Sram", "Sram", "Dram", "OnChipFlash"]))
                        elif k.endswith("clock_scale"):
                            d[k] = str(rng.choice(["1.0", "0.5", "0.0625", "0.75", "0.234375"]))
                        else:
                            d[k] = str(int(rng.choice([1, 16, 32, 64, 128, 250, 500])))
            else:
                for k, ch in (("const_mem_area", ["Axi1", "Axi1", "Axi1", "Axi0"]), ("arena_mem_area", PORTS), ("cache_mem_area", ["Axi0", "Axi0", "Axi0", "Axi1"])):
                    if rng.random() < (0.8 if prev is None else 0.3):
                        d[k] = str(rng.choice(ch))
                if rng.random() < 0.5:
                    d["arena_cache_size"] = str(int(rng.choice([0, 1024, 65536, 393216, 524288, 2097152, 4294967295])))
            if prev is not None and rng.random() < 0.8:
                d["inherit"] = prev
                tags.add("inherit")
            secs[name] = d
            prev = name
    if hostile:
        h = int(rng.integers(0, 7))
        part = "System_Config" if rng.integers(0, 2) else "Memory_Mode"
        mine = [s for s in secs if s.startswith(part)]
        if h == 0:
            secs[mine[0]]["inherit"] = mine[0]
            tags.add("self-inherit")
        elif h == 1 and len(mine) >= 2:
            secs[mine[0]]["inherit"] = mine[1]
            secs[mine[1]]["inherit"] = mine[0]
            tags.add("inherit-cycle")
        elif h == 2:
            secs[mine[-1]]["inherit"] = part + ".DoesNotExist"
            tags.add("inherit-missing")
        elif h == 3:
            m = [s for s in secs if s.startswith("Memory_Mode")]
            secs[m[-1]]["arena_cache_size"] = str(rng.choice([-1, -4096, 1 << 41, (1 << 32)]))
            tags.add("cache-size-range")
        elif h == 4:
            m = [s for s in secs if s.startswith("Memory_Mode")]
            secs[m[-1]]["const_mem_area"] = "Axi0"
            secs[m[-1]]["arena_mem_area"] = "Axi1"
            tags.add("area-mapping")
        elif h == 5:
            s = [x for x in secs if x.startswith("System_Config")]
            secs[s[-1]]["axi0_port"] = "OffChipFlash"
            tags.add("area-mapping")
        else:
            tags.add("unknown-section")
    text = ""
    names = list(secs)
    order = rng.permutation(len(names))
    for i in order:
        text += "[%s]\n" % names[i]
        for k, v in secs[names[i]].items():
            text += "%s=%s\n" % (k, v)
        text += "\n"
    return text, secs, tags


def gen_cases(tier, seed):
    q = tier == "quick"
    cases = []
    for i in range(16 if q else 64):
        cases.append({"part": "direct", "seed": seed * 977 + i, "n": 60 if q else 400})
    for i in range(16 if q else 48):
        cases.append({"part": "cli", "seed": seed * 983 + i, "n": 5 if q else 16})
    return cases


def compare(exp, got):
    diffs = []
    for k, v in exp.items():
        g = got.get(k)
        if isinstance(v, float):
            if abs(float(g) - v) > 1e-9 * max(1.0, abs(v)):
                diffs.append((k, v, g))
        elif g != v:
            diffs.append((k, v, g))
    return diffs


def run_direct(case):
    from ethosu.vela.architecture_features import ArchitectureFeatures
    from ethosu.vela.errors import VelaError

    rng = np.random.default_rng(np.random.SeedSequence([18, case["seed"]]))
    viol = {}
    counters = {"configurations": 0, "with_inheritance": 0, "rejections_expected": 0, "rejections_observed": 0, "accepted_compared": 0, "multi_file": 0}
    keys = []
    sample = None
    d = os.path.join(case["sdir"], "d%d" % case["seed"])
    os.makedirs(d, exist_ok=True)
    for t in range(case["n"]):
        hostile = rng.random() < 0.35
        text, secs, tags = gen_ini(rng, hostile)
        files = []
        if rng.random() < 0.25:
            # split over two files (sections are searched in all of them)
            names = list(secs)
            cut = len(names) // 2
            for fi, part in enumerate((names[:cut], names[cut:])):
                p = os.path.join(d, "c%d_%d.ini" % (t, fi))
                with open(p, "w") as f:
                    for nme in part:
                        f.write("[%s]\n" % nme + "".join("%s=%s\n" % kv for kv in secs[nme].items()) + "\n")
                files.append(p)
            counters["multi_file"] += 1
        else:
            p = os.path.join(d, "c%d.ini" % t)
            open(p, "w").write(text)
            files = [p]
        sysn = [s.split(".", 1)[1] for s in secs if s.startswith("System_Config")]
        memn = [s.split(".", 1)[1] for s in secs if s.startswith("Memory_Mode")]
        sysname = str(rng.choice(sysn + ["internal-default"])) if "unknown-section" not in tags else "Nope"
        memname = str(rng.choice(memn + ["internal-default"]))
        acc = ACCS[int(rng.integers(0, 6))]
        cli = None if rng.random() < 0.5 else int(rng.choice([0, 4096, 393216, 1 << 22]))
        try:
            exp = ref_resolve(secs, sysname, memname, acc, cli)
            rej = None
        except Reject as e:
            exp, rej = None, str(e)
        counters["configurations"] += 1
        if "inherit" in tags:
            counters["with_inheritance"] += 1
        got = err = None
        try:
            with contextlib.redirect_stdout(io.StringIO()):
                arch = ArchitectureFeatures(vela_config_files=files, system_config=sysname, memory_mode=memname, accelerator_config=acc,
                                            max_blockdep=3, verbose_config=False, arena_cache_size=cli)
            got = observe(arch)
        except VelaError as e:
            err = ("vela", str(e.data)[:200])
        except BaseException as e:
            err = ("other", "%s: %s" % (type(e).__name__, str(e)[:150]))
        wit = {"ini": text, "system_config": sysname, "memory_mode": memname, "acc": acc, "cli_arena_cache_size": cli, "tags": sorted(tags)}
        key = "%s|%s" % (",".join(sorted(tags)), "reject" if rej else "accept")
        keys.append(key + "|%d" % (case["seed"] * 1000 + t))
        if rej is not None:
            counters["rejections_expected"] += 1
            if err is None:
                mech = "invalid-configuration-accepted:" + re.sub(r"[^a-z_ ]", "", rej.split(" maps")[0].lower())[:40].strip().replace(" ", "-")
                viol.setdefault(mech, {"mech": mech, "msg": "expected rejection (%s) but resolved to %s" % (rej, {k: got[k] for k in ("const_mem_area", "arena_mem_area", "cache_mem_area", "arena_cache_size")}), "witness": wit})
            elif err[0] == "other":
                mech = "invalid-configuration-not-diagnosed:" + err[1].split(":")[0]
                viol.setdefault(mech, {"mech": mech, "msg": "expected a Vela error (%s) but got %s" % (rej, err[1]), "witness": wit})
            else:
                counters["rejections_observed"] += 1
        else:
            if err is not None:
                mech = "valid-configuration-rejected:" + err[1].split(":")[0 if err[0] == "other" else 1].strip()[:50]
                viol.setdefault(mech, {"mech": mech, "msg": "reference resolves this configuration but Vela raised %s" % (err[1],), "witness": wit})
            else:
                counters["accepted_compared"] += 1
                diffs = compare(exp, got)
                if diffs:
                    mech = "attribute-differs:" + diffs[0][0]
                    viol.setdefault(mech, {"mech": mech, "msg": "expected %s=%r, ArchitectureFeatures has %r (%d attributes differ)" % (diffs[0][0], diffs[0][1], diffs[0][2], len(diffs)),
                                           "witness": dict(wit, diffs=diffs)})
                if sample is None:
                    sample = {"system_config": sysname, "memory_mode": memname, "acc": acc, "cli": cli, "resolved": {k: got[k] for k in ("axi0_port", "axi1_port", "const_mem_area", "arena_cache_size", "spilling")}}
    import shutil

    shutil.rmtree(d, ignore_errors=True)
    return {"violations": list(viol.values()), "counters": counters, "keys": keys, "sample": sample}


VERBOSE_RE = re.compile(r"^\s+(\w+) = (.+)$")


def parse_verbose(text):
    out = {}
    for ln in text.splitlines():
        m = VERBOSE_RE.match(ln)
        if m:
            out[m.group(1)] = m.group(2).strip()
    return out


def run_cli(case):
    """the real CLI with --verbose-config from different working directories, incl. the documented Dir/file.ini form"""
    import subprocess
    import sys

    from vv import netgen, repo, tflw

    rng = np.random.default_rng(np.random.SeedSequence([1818, case["seed"]]))
    viol = {}
    counters = {"cli_runs": 0, "cli_bundled_relative": 0, "cli_cwds": 0}
    keys = []
    sample = None
    d = os.path.join(case["sdir"], "cli%d" % case["seed"])
    os.makedirs(os.path.join(d, "sub", "deep"), exist_ok=True)
    net = netgen.make("exact-chain", 3)
    mp = os.path.join(d, "n.tflite")
    open(mp, "wb").write(tflw.build(net))
    bundled = configparser.ConfigParser()
    bundled.optionxform = str
    bundled.read(os.path.join(repo.REPO, "ethosu", "config_files", "Arm", "vela.ini"))
    bsecs = {s: dict(bundled[s]) for s in bundled.sections()}
    launcher = os.path.join(repo.VERIF, "vv", "vela_cli.py")
    cwds = [d, os.path.join(d, "sub", "deep"), "/"]
    for t in range(case["n"]):
        acc = ACCS[int(rng.integers(0, 6))]
        fam = "u65" if "u65" in acc else "u55"
        style = int(rng.integers(0, 3))
        cwd = cwds[t % 3]
        cli = None if rng.random() < 0.6 else int(rng.choice([65536, 393216, 1 << 21]))
        if t % 4 == 3:
            # a named system configuration / memory mode without any --config file cannot be resolved: it must be rejected, never replaced by the internal defaults
            known_sys = "Ethos_U55_High_End_Embedded" if fam == "u55" else "Ethos_U65_High_End"
            names = [("--system-config", str(rng.choice([known_sys, "No_Such_System_Config"]))), ("--memory-mode", str(rng.choice(["Shared_Sram", "Sram_Only", "No_Such_Memory_Mode"])))]
            pick = int(rng.integers(1, 4))
            sel = [n for i, n in enumerate(names) if pick & (1 << i)]
            odir = os.path.join(d, "o%d" % t)
            argv = [sys.executable, launcher, mp, "--output-dir", odir, "--accelerator-config", acc, "--verbose-config"] + [x for n in sel for x in n]
            if cli is not None:
                argv += ["--arena-cache-size", str(cli)]
            p = subprocess.run(argv, cwd=cwd, env=repo.child_env(), capture_output=True, text=True, timeout=300)
            counters["cli_runs"] += 1
            counters["cli_named_without_config_file"] = counters.get("cli_named_without_config_file", 0) + 1
            keys.append("cli-noconfig|%d|%s" % (pick, acc))
            wit = {"argv": argv[2:], "cwd": cwd, "stdout_tail": p.stdout[-800:], "stderr_tail": p.stderr[-800:]}
            which = "+".join(n[0].lstrip("-") for n in sel)
            if p.returncode == 0 or os.path.exists(odir) and os.listdir(odir):
                mech = "cli:named-configuration-without-config-file-accepted:" + which
                viol.setdefault(mech, {"mech": mech, "msg": "%s given without --config: exit status %d, output written: %s (expected an error; nothing can resolve the name)" % (
                    " ".join(x for n in sel for x in n), p.returncode, os.path.exists(odir) and bool(os.listdir(odir))), "witness": wit})
            elif "Traceback" in p.stderr:
                mech = "cli:invalid-configuration-traceback"
                viol.setdefault(mech, {"mech": mech, "msg": "expected a Vela error for %s without --config, got a traceback" % which, "witness": wit})
            continue
        if style < 2:
            # bundled file, documented relative form or absolute path
            cfgarg = "Arm/vela.ini" if style == 0 else os.path.join(repo.REPO, "ethosu", "config_files", "Arm", "vela.ini")
            sysname = str(rng.choice(["Ethos_U55_High_End_Embedded", "Ethos_U55_Deep_Embedded"] if fam == "u55" else ["Ethos_U65_High_End", "Ethos_U65_Mid_End", "Ethos_U65_Embedded"]))
            memname = str(rng.choice(["Sram_Only", "Shared_Sram"] + (["Dedicated_Sram", "Dedicated_Sram_512KB"] if fam == "u65" else [])))
            secs = bsecs
            if style == 0:
                counters["cli_bundled_relative"] += 1
        else:
            text, secs, tags = gen_ini(rng, False)
            # the user's own file given in every path form a shell user would type (the documented rule: only 'Dir/file.ini' that is neither absolute
            # nor starts with a dot refers to the bundled configurations)
            form = int(rng.integers(0, 6))
            name = "g%d.ini" % t
            if form == 0:
                cfgarg = os.path.join(d, name)
                open(cfgarg, "w").write(text)
            elif form == 1:
                cwd, cfgarg = d, name
                open(os.path.join(d, name), "w").write(text)
            elif form == 2:
                cwd, cfgarg = d, "./" + name
                open(os.path.join(d, name), "w").write(text)
            elif form == 3:
                cwd, cfgarg = os.path.join(d, "sub", "deep"), "../" + name
                open(os.path.join(d, "sub", name), "w").write(text)
            elif form == 4:
                cwd, cfgarg = d, ".cfg/" + name
                os.makedirs(os.path.join(d, ".cfg"), exist_ok=True)
                open(os.path.join(d, ".cfg", name), "w").write(text)
            else:
                cwd, cfgarg = os.path.join(d, "sub", "deep"), "../../" + name
                open(os.path.join(d, name), "w").write(text)
            counters["cli_own_file_forms"] = counters.get("cli_own_file_forms", 0) + 1
            keys.append("cli-form|%d" % form)
            sysname = [s.split(".", 1)[1] for s in secs if s.startswith("System_Config")][-1]
            memname = [s.split(".", 1)[1] for s in secs if s.startswith("Memory_Mode")][-1]
        try:
            exp = ref_resolve(secs, sysname, memname, acc, cli)
            rej = None
        except Reject as e:
            exp, rej = None, str(e)
        argv = [sys.executable, launcher, mp, "--output-dir", os.path.join(d, "o%d" % t), "--accelerator-config", acc, "--config", cfgarg,
                "--system-config", sysname, "--memory-mode", memname, "--verbose-config"]
        if cli is not None:
            argv += ["--arena-cache-size", str(cli)]
        p = subprocess.run(argv, cwd=cwd, env=repo.child_env(), capture_output=True, text=True, timeout=300)
        counters["cli_runs"] += 1
        counters["cli_cwds"] += 1
        wit = {"argv": argv[2:], "cwd": cwd, "stdout_tail": p.stdout[-800:], "stderr_tail": p.stderr[-800:]}
        keys.append("cli|%d|%s|%s|%s" % (style, acc, memname, cli))
        if rej is not None:
            if p.returncode == 0:
                mech = "cli:invalid-configuration-accepted"
                viol.setdefault(mech, {"mech": mech, "msg": "expected rejection (%s), exit status 0" % rej, "witness": wit})
            elif "Traceback" in p.stderr:
                mech = "cli:invalid-configuration-traceback"
                viol.setdefault(mech, {"mech": mech, "msg": "expected a Vela error (%s), got a traceback" % rej, "witness": wit})
            continue
        if p.returncode != 0:
            why = "traceback" if "Traceback" in p.stderr else (p.stdout.strip().splitlines() or ["?"])[-1][:80]
            why = re.sub(r"'[^']*'", "'..'", why)
            why = re.sub(r"/\S+", "<path>", why)
            mech = "cli:valid-configuration-rejected:style%d:%s:%s" % (style, "relative-own-file" if (style == 2 and not os.path.isabs(cfgarg)) else "given-path", why[:60])
            viol.setdefault(mech, {"mech": mech, "msg": "valid configuration (form %s, cwd %s) rejected: %s" % (["Dir/file.ini", "absolute", "generated"][style], cwd, why), "witness": wit})
            continue
        v = parse_verbose(p.stdout)
        got = {}
        try:
            got = dict(core_clock=float(v["core_clock"]), axi0_port=v["axi0_port"], axi1_port=v["axi1_port"], const_mem_area=v["const_mem_area"],
                       arena_mem_area=v["arena_mem_area"], cache_mem_area=v["cache_mem_area"], arena_cache_size=int(v["arena_cache_size"].split()[0]),
                       permanent=v["permanent_storage_mem_area"], feature_map=v["feature_map_storage_mem_area"], fast=v["fast_storage_mem_area"])
            for a in AREAS:
                got[a + "_clock_scale"] = float(v[a + "_clock_scales"])
                got[a + "_burst_length"] = int(v[a + "_burst_length"])
                got[a + "_read_latency"] = int(v[a + "_read_latency"])
                got[a + "_write_latency"] = int(v[a + "_write_latency"])
        except (KeyError, ValueError) as e:
            mech = "cli:verbose-config-unparsable"
            viol.setdefault(mech, {"mech": mech, "msg": "could not parse --verbose-config output: %r" % e, "witness": wit})
            continue
        exp2 = {k: x for k, x in exp.items() if k != "spilling"}
        diffs = compare(exp2, got)
        if diffs:
            src = "cli-option-given" if cli is not None else "cli-option-absent"
            mech = "cli:attribute-differs:%s:%s" % (diffs[0][0], src)
            viol.setdefault(mech, {"mech": mech, "msg": "expected %s=%r, --verbose-config reports %r (memory mode %s, --arena-cache-size %s)" % (diffs[0][0], diffs[0][1], diffs[0][2], memname, cli),
                                   "witness": dict(wit, diffs=diffs)})
        if sample is None:
            sample = {"cli_form": ["Dir/file.ini", "absolute", "generated"][style], "cwd": cwd, "memory_mode": memname, "cli_cache": cli, "reported_cache": got["arena_cache_size"]}
    import shutil

    shutil.rmtree(d, ignore_errors=True)
    return {"violations": list(viol.values()), "counters": counters, "keys": keys, "sample": sample}


def run_case(case):
    return {"direct": run_direct, "cli": run_cli}[case["part"]](case)


def summarise(agg, tier):
    q = tier == "quick"
    return {
        "thresholds": {"configurations": 500 if q else 15000, "with_inheritance": 150 if q else 5000, "rejections_observed": 50 if q else 1500,
                       "accepted_compared": 150 if q else 4000, "cli_runs": 50 if q else 500, "cli_bundled_relative": 6 if q else 60, "cli_named_without_config_file": 8 if q else 80},
        "rule": "generated .ini files (1-3 sections per part, inheritance chains of depth 0-4, random option subsets, all port mappings, shuffled section order, "
                "optionally split over two files) x selection x CLI override present/absent x 6 accelerators; 35% hostile (self-inherit, 2-cycle, missing parent, "
                "out-of-range size, illegal mapping, unknown section); CLI runs from 3 working directories with Dir/file.ini, absolute and generated files. "
                "distinct = distinct (tags, verdict, case) keys",
        "assumptions": ["the reference resolver is written from OPTIONS.md (inherit: child overrides parent, transitive; unspecified = 1 or equivalent; internal-default; CLI "
                        "override only when given; Sram->OnChipFlash rewrite; validity rules)"],
    }
