"""C07 - Weight compression is lossless, hardware-ordered and memory-safe.

Parts: exhaustive short sequences / random long sequences through ethosu.mlw_codec.encode (codec rebuilt from the working tree),
random volumes x configurations through reorder_encode and api.npu_encode_weights, out-of-range probes, and the same vectors
through clang ASan+UBSan builds (with and without -DNDEBUG) of mlw_encode.c/mlw_decode.c linked with csrc/mlw_drive.c.
Oracle: vv.mlwref.decode (frozen port of the stream format) and vv.mlwref.reorder_ref.
"""
import itertools
import os
import struct
import subprocess

import numpy as np

from vv import mlwref, repo

PID = "C07"
LEVEL = "exploration"
CASE_TIMEOUT = 900.0

ACC = {"Ethos_U55_32": (8, 4), "Ethos_U55_64": (8, 8), "Ethos_U55_128": (8, 8), "Ethos_U55_256": (8, 8), "Ethos_U65_256": (8, 8), "Ethos_U65_512": (8, 8)}
OOR_PROBES = [-256, 256, -257, 300, -300, 511, -512, 32767, -32768, 1000]
MODES_REQUIRED = ["palette", "direct", "zero_runs", "uncompressed", "wtrunc", "palette_reused", "slices_after_first", "direct_offset_nonzero",
                  "wdiv0", "wdiv1", "wdiv2", "wdiv3", "wdiv4", "wdiv5", "zdiv0", "zdiv1", "zdiv2", "zdiv3"]


def gen_cases(tier, seed):
    q = tier == "quick"
    cases = []
    n = 16
    for i in range(n):
        cases.append({"part": "exh", "shard": i, "nshards": n, "tier": tier})
    for i in range(n if q else 64):
        cases.append({"part": "rand", "seed": seed * 7 + i, "n": 60 if q else 400, "tier": tier})
    for i in range(n if q else 64):
        cases.append({"part": "reorder", "seed": seed * 11 + i, "n": 120 if q else 1200})
    cases.append({"part": "oor", "seed": seed, "which": "encode"})
    for v in OOR_PROBES:
        cases.append({"part": "oor", "seed": seed, "which": "reorder", "value": v})
    for variant in ("ndebug", "debug"):
        for i in range(4 if q else 16):
            cases.append({"part": "san", "variant": variant, "seed": seed * 13 + i, "n": 150 if q else 1500})
    return cases


def check_stream(w, enc, viol, counters, stats, what, witness):
    """w: expected weight list (hardware order); enc: bytes"""
    counters["streams"] += 1
    if len(enc) % 16:
        viol.setdefault("stream-length-not-multiple-of-16", {"mech": "stream-length-not-multiple-of-16", "msg": "%s: %d bytes" % (what, len(enc)), "witness": witness})
    try:
        dec = mlwref.decode(enc, stats)
    except mlwref.MlwError as e:
        viol.setdefault("stream-undecodable", {"mech": "stream-undecodable", "msg": "%s: %s" % (what, e), "witness": witness})
        return None
    n = len(w)
    if len(dec) < n or list(dec[:n]) != list(w) or any(dec[n:]):
        k = next((i for i in range(min(n, len(dec))) if dec[i] != w[i]), min(n, len(dec)))
        viol.setdefault("decoded-differs-from-source", {"mech": "decoded-differs-from-source",
                                                      "msg": "%s: %d weights in, %d decoded, first difference at %d (%s vs %s)" % (what, n, len(dec), k, w[k] if k < n else None, dec[k] if k < len(dec) else None),
                                                      "witness": witness})
    counters["weights_checked"] += n
    return dec


def run_exh(case):
    import ethosu.mlw_codec as codec

    viol, stats = {}, {}
    counters = {"streams": 0, "weights_checked": 0, "exhaustive_sequences": 0, "c_decoder_crosschecks": 0}
    sh, ns = case["shard"], case["nshards"]
    spaces = [([0, 1, -1], 6), ([0, 1, -255, 255], 6), ([0, 1, -1, 2, -2, 127, -128, 255, -255], 4 if case["tier"] != "quick" else 3)]
    idx = 0
    for alpha, maxlen in spaces:
        for ln in range(1, maxlen + 1):
            for seq in itertools.product(alpha, repeat=ln):
                idx += 1
                if idx % ns != sh:
                    continue
                enc = bytes(codec.encode(list(seq)))
                dec = check_stream(list(seq), enc, viol, counters, stats, "encode(%s)" % (list(seq),), {"seq": list(seq)})
                counters["exhaustive_sequences"] += 1
                if idx % 50 == sh and dec is not None:
                    cd = list(codec.decode(bytearray(enc)))
                    counters["c_decoder_crosschecks"] += 1
                    if cd != dec:
                        viol.setdefault("repo-decoder-disagrees-with-reference-decoder", {"mech": "repo-decoder-disagrees-with-reference-decoder", "msg": "seq %s" % (list(seq),), "witness": {"seq": list(seq)}})
    return {"violations": list(viol.values()), "counters": counters, "sets": {"modes": [k for k in stats if k != "palsizes"]}, "keys": ["exh:%d" % sh],
            "sample": {"exhaustive": "alphabets {0,1,-1}^<=6, {0,1,-255,255}^<=6, 9 symbols^<=4", "sequences_this_shard": counters["exhaustive_sequences"]}}


def rand_seq(rng, kind, n):
    if kind == "palette":
        vals = rng.integers(-255, 256, int(rng.integers(2, 33)))
        return rng.choice(vals, n)
    if kind == "direct":
        return np.clip(np.round(rng.normal(0, rng.choice([3, 10, 40, 90]), n)), -255, 255).astype(int)
    if kind == "zeros":
        w = rng.integers(-255, 256, n)
        return w * (rng.random(n) > rng.choice([0.8, 0.9, 0.97, 0.995]))
    if kind == "flat":
        return rng.integers(-255, 256, n)
    if kind == "piecewise":
        parts = []
        left = n
        while left > 0:
            m = int(min(left, rng.integers(8, max(9, n // 3))))
            parts.append(rand_seq(rng, str(rng.choice(["palette", "direct", "zeros", "flat", "allzero", "small"])), m))
            left -= m
        return np.concatenate(parts)
    if kind == "allzero":
        return np.zeros(n, dtype=int)
    if kind == "small":
        return rng.integers(-3, 4, n)
    if kind == "extremes":
        return rng.choice(np.array([-255, 255, 0, 254, -254, 1]), n)
    if kind == "offset":
        base = int(rng.integers(10, 200))
        return np.clip(base + np.round(rng.normal(0, 4, n)), -255, 255).astype(int) * rng.choice([1, -1])
    if kind == "bursts":
        # dense palette restarts: a stretch over a handful of values, then a burst of values not seen before, repeated - more than one new palette per 64
        # weights (the encoder's bookkeeping of section starts is sized from the weight count)
        parts = []
        left = n
        while left > 0:
            few = rng.choice(np.arange(-255, 256), int(rng.integers(2, 9)), replace=False)
            a = rng.choice(few, int(min(left, rng.integers(20, 40))))
            parts.append(a)
            left -= len(a)
            if left > 0:
                b = rng.choice(np.setdiff1d(np.arange(-255, 256), few), int(min(left, rng.integers(25, 45))), replace=False)
                parts.append(b)
                left -= len(b)
        return np.concatenate(parts)
    raise KeyError(kind)


KINDS = ["palette", "direct", "zeros", "flat", "piecewise", "allzero", "small", "extremes", "offset"]


def run_rand(case):
    import ethosu.mlw_codec as codec

    rng = np.random.default_rng(np.random.SeedSequence([7, case["seed"]]))
    viol, stats = {}, {}
    counters = {"streams": 0, "weights_checked": 0, "c_decoder_crosschecks": 0, "long_sequences": 0}
    keys = []
    sample = None
    for t in range(case["n"]):
        kind = KINDS[t % len(KINDS)]
        n = int(rng.choice([1, 2, 15, 16, 17, 100, 1000, 5000])) if t % 7 else int(rng.integers(100, 20000))
        if case["seed"] % 16 == 3 and t == 0:
            n = 70000  # > 32767 non-zero values: forces slice splitting
            kind = "flat"
        w = [int(x) for x in rand_seq(rng, kind, n)]
        enc = bytes(codec.encode(w))
        dec = check_stream(w, enc, viol, counters, stats, "encode(%s x %d)" % (kind, n), {"kind": kind, "n": n, "seed": case["seed"], "t": t, "head": w[:32]})
        counters["long_sequences"] += 1
        keys.append("r:%s:%d" % (kind, n))
        if t % 5 == 0 and dec is not None:
            cd = list(codec.decode(bytearray(enc)))
            counters["c_decoder_crosschecks"] += 1
            if cd != dec:
                viol.setdefault("repo-decoder-disagrees-with-reference-decoder", {"mech": "repo-decoder-disagrees-with-reference-decoder", "msg": "%s x %d" % (kind, n), "witness": {"head": w[:64]}})
        if sample is None:
            sample = {"kind": kind, "n": n, "head": w[:12], "encoded_bytes": len(enc)}
    ps = stats.pop("palsizes", set())
    return {"violations": list(viol.values()), "counters": counters, "sets": {"modes": list(stats), "palsizes": [str(p) for p in ps]}, "keys": keys, "sample": sample}


def rand_volume(rng):
    """-> dict describing a reorder_encode request"""
    accn = list(ACC)[int(rng.integers(0, 6))]
    ifm_ub, ofm_ub = ACC[accn]
    is_dw = bool(rng.integers(0, 4) == 0)
    is_pk = (not is_dw) and bool(rng.integers(0, 2))
    bits = int(rng.choice([8, 8, 16]))
    dil = (int(rng.choice([1, 1, 2])), int(rng.choice([1, 1, 2])))
    kh, kw = int(rng.choice([1, 1, 2, 3, 3, 5, 7, 8, 9, 11])), int(rng.choice([1, 1, 2, 3, 3, 5, 7, 8, 9]))
    od = int(rng.choice([1, 2, 3, 4, 7, 8, 9, 16, 17, 24, 33, 40]))
    idp = 1 if is_dw else int(rng.choice([1, 2, 3, 7, 8, 9, 15, 16, 17, 31, 32, 33, 40]))
    obd = int(rng.choice([ofm_ub, 2 * ofm_ub, 4 * ofm_ub, 8 * ofm_ub, od, max(1, od // 2)]))
    if kh * kw * od * idp > 40000:
        od = max(1, od // 4)
    return dict(acc=accn, ifm_ub=ifm_ub, ofm_ub=ofm_ub, is_dw=is_dw, is_pk=is_pk, bits=bits, dil=dil, shape=(od, kh, kw, idp), obd=obd,
                dec_h=8 // dil[1], dec_w=8 // dil[0], kind=KINDS[int(rng.integers(0, len(KINDS)))], layout=int(rng.integers(0, 3)))


def make_array(rng, req):
    od, kh, kw, idp = req["shape"]
    flat = np.asarray(rand_seq(rng, req["kind"], od * kh * kw * idp), dtype=np.int16)
    if req["layout"] == 0:
        return flat.reshape(req["shape"]).copy()
    if req["layout"] == 1:  # HWIO storage viewed as OHWI (what the pipeline passes: non-contiguous strides)
        hwio = flat.reshape(kh, kw, idp, od).copy()
        return np.transpose(hwio, (3, 0, 1, 2))
    big = np.zeros((od * 2, kh, kw, idp + 3), dtype=np.int16)  # strided slice of a bigger buffer
    big[::2, :, :, :idp] = flat.reshape(req["shape"])
    return big[::2, :, :, :idp]


def run_reorder(case):
    import ethosu.mlw_codec as codec
    from ethosu.vela import api

    rng = np.random.default_rng(np.random.SeedSequence([77, case["seed"]]))
    viol, stats = {}, {}
    counters = {"streams": 0, "weights_checked": 0, "reorder_requests": 0, "api_requests": 0, "depthwise": 0, "part_kernel": 0, "subkernel_decomposition": 0, "noncontiguous": 0}
    keys = []
    sample = None
    for t in range(case["n"]):
        req = rand_volume(rng)
        arr = make_array(rng, req)
        exp = mlwref.reorder_ref(np.asarray(arr), req["ifm_ub"], req["ofm_ub"], req["obd"], req["is_dw"], req["is_pk"], req["bits"], req["dec_h"], req["dec_w"])
        wit = {k: (list(v) if isinstance(v, tuple) else v) for k, v in req.items()}
        wit["seed"], wit["t"] = case["seed"], t
        if t % 3 == 0:
            # public API (wraps encode_weights): accelerator + dilation + traversal
            counters["api_requests"] += 1
            try:
                enc = api.npu_encode_weights(api.NpuAccelerator[req["acc"]], arr, req["dil"], req["bits"], req["obd"], req["is_dw"],
                                             api.NpuBlockTraversal.PART_KERNEL_FIRST if req["is_pk"] else api.NpuBlockTraversal.DEPTH_FIRST)
                enc = bytes(enc)
                padded = None
            except Exception as e:
                viol.setdefault("api-exception:" + type(e).__name__, {"mech": "api-exception:" + type(e).__name__, "msg": str(e)[:200], "witness": wit})
                continue
        else:
            try:
                enc, padded = codec.reorder_encode(req["ifm_ub"], req["ofm_ub"], arr, req["obd"], int(req["is_dw"]), int(req["is_pk"]), req["bits"], req["dec_h"], req["dec_w"])
                enc = bytes(enc)
            except Exception as e:
                viol.setdefault("reorder-exception:" + type(e).__name__, {"mech": "reorder-exception:" + type(e).__name__, "msg": str(e)[:200], "witness": wit})
                continue
            if padded != len(exp):
                viol.setdefault("padded-length-differs", {"mech": "padded-length-differs", "msg": "reported padded length %s, hardware order has %d entries" % (padded, len(exp)), "witness": wit})
        counters["reorder_requests"] += 1
        counters["depthwise"] += int(req["is_dw"])
        counters["part_kernel"] += int(req["is_pk"])
        counters["noncontiguous"] += int(req["layout"] != 0)
        od, kh, kw, idp = req["shape"]
        if kh > req["dec_h"] or kw > req["dec_w"]:
            counters["subkernel_decomposition"] += 1
        check_stream(exp, enc, viol, counters, stats, "reorder_encode%s" % (req["shape"],), wit)
        keys.append("v:%s:%s:%d:%d:%d:%s:%d" % (req["acc"], req["shape"], req["is_dw"], req["is_pk"], req["bits"], req["dil"], req["obd"]))
        if sample is None:
            sample = wit
    stats.pop("palsizes", None)
    return {"violations": list(viol.values()), "counters": counters, "sets": {"modes": list(stats)}, "keys": keys, "sample": sample}


def run_oor(case):
    """values outside what the stream can represent must be rejected or survive the round trip - never silently changed"""
    import ethosu.mlw_codec as codec
    from ethosu.vela import api

    viol = {}
    counters = {"out_of_range_probes": 0, "bad_argument_probes": 0}
    rng = np.random.default_rng(case["seed"])
    probes = OOR_PROBES
    for v in (probes if case["which"] == "encode" else []):
        for n, pos in ((1, 0), (40, 17), (300, 299)):
            w = [int(x) for x in rng.integers(-5, 6, n)]
            w[pos] = v
            counters["out_of_range_probes"] += 1
            try:
                enc = bytes(codec.encode(list(w)))
            except (ValueError, OverflowError):
                continue
            except Exception as e:
                viol.setdefault("oor:encode:unexpected-exception:" + type(e).__name__, {"mech": "oor:encode:unexpected-exception:" + type(e).__name__, "msg": str(e), "witness": {"value": v}})
                continue
            try:
                dec = mlwref.decode(enc)
            except mlwref.MlwError:
                dec = None
            if dec is None or dec[:n] != w:
                viol.setdefault("oor:encode:accepted-and-changed", {"mech": "oor:encode:accepted-and-changed", "msg": "encode accepted %d and decoded to %s" % (v, None if dec is None else dec[pos]), "witness": {"value": v, "n": n}})
    for v in ([case["value"]] if case["which"] == "reorder" else []):
        for shape, pos in (((8, 1, 1, 8), 5), ((16, 3, 3, 16), 700), ((3, 2, 2, 5), 59)):
            arr = rng.integers(-5, 6, shape).astype(np.int16)
            arr.flat[pos] = v
            exp = mlwref.reorder_ref(arr, 8, 8, 8, False, False, 8, 8, 8)
            for via in ("codec", "api"):
                counters["out_of_range_probes"] += 1
                try:
                    if via == "codec":
                        enc, _ = codec.reorder_encode(8, 8, arr, 8, 0, 0, 8, 8, 8)
                    else:
                        enc = api.npu_encode_weights(api.NpuAccelerator.Ethos_U55_128, arr, (1, 1), 8, 8, False, api.NpuBlockTraversal.DEPTH_FIRST)
                    enc = bytes(enc)
                except (ValueError, OverflowError, AssertionError):
                    continue
                except Exception as e:
                    viol.setdefault("oor:reorder:unexpected-exception:" + type(e).__name__, {"mech": "oor:reorder:unexpected-exception:" + type(e).__name__, "msg": str(e), "witness": {"value": v}})
                    continue
                try:
                    dec = mlwref.decode(enc)
                except mlwref.MlwError:
                    dec = None
                if dec is None or dec[: len(exp)] != exp:
                    got = None if dec is None else [d for d, e in zip(dec, exp) if d != e][:3]
                    mech = "oor:reorder_encode:out-of-range-weight-accepted-and-changed"
                    viol.setdefault(mech, {"mech": mech, "msg": "%s accepted weight %d in a %s volume; stream decodes to %s there" % (via, v, shape, got), "witness": {"value": v, "shape": list(shape), "via": via}})
    # wrong dtypes / ranks must raise, not crash
    for bad in () if case["which"] != "encode" else (np.zeros((2, 2, 2), np.int16), np.zeros((2, 2, 2, 2), np.float32) + 0.5, "abc", None, np.zeros((0, 1, 1, 1), np.int16)):
        counters["bad_argument_probes"] += 1
        try:
            codec.reorder_encode(8, 8, bad, 8, 0, 0, 8, 8, 8)
        except Exception:
            pass
    return {"violations": list(viol.values()), "counters": counters, "keys": ["oor"], "sample": {"probes": probes}}


# ---------------------------------------------------------------------------------------------- sanitizer builds
def build_driver(variant):
    d, srcs = repo.codec_sources()
    srcs = [s for s in srcs if not s.endswith("mlw_codecmodule.c")]
    drv = os.path.join(repo.VERIF, "csrc", "mlw_drive.c")
    key = repo._hash_files(srcs + [drv] + [os.path.join(d, h) for h in sorted(os.listdir(d)) if h.endswith(".h")], variant)
    out = os.path.join(repo.BUILD, "san-%s-%s" % (variant, key), "mlw_drive")
    if os.path.exists(out):
        return out
    os.makedirs(os.path.dirname(out), exist_ok=True)
    cmd = ["clang-14", "-O1", "-g", "-fsanitize=address,undefined", "-fno-sanitize-recover=all", "-fno-omit-frame-pointer", "-w", "-I" + d]
    if variant == "ndebug":
        cmd.append("-DNDEBUG")
    tmp = out + ".%d.tmp" % os.getpid()
    r = subprocess.run(cmd + srcs + [drv, "-lm", "-o", tmp], capture_output=True, text=True)
    if r.returncode != 0:
        raise RuntimeError("sanitizer build failed: " + r.stderr[-2000:])
    os.replace(tmp, out)
    return out


def run_san(case):
    rng = np.random.default_rng(np.random.SeedSequence([777, case["seed"]]))
    viol, stats = {}, {}
    counters = {"sanitizer_vectors": 0, "streams": 0, "weights_checked": 0, "sanitizer_runs": 0}
    try:
        drv = build_driver(case["variant"])
    except Exception as e:
        return {"inconclusive": "sanitizer build failed: %s" % str(e)[-300:], "counters": counters}
    d = os.path.join(case["sdir"], "san%s%d" % (case["variant"], case["seed"]))
    os.makedirs(d, exist_ok=True)
    fin, fout = os.path.join(d, "in.bin"), os.path.join(d, "out.bin")
    expected = []
    with open(fin, "wb") as f:
        for t in range(case["n"]):
            if t % 2 == 0:
                kind = KINDS[(t // 2) % len(KINDS)]
                n = int(rng.choice([1, 3, 16, 200, 3000])) if t % 10 else int(rng.integers(1, 40000))
                if t == 0 and case["seed"] % 4 == 1:
                    n, kind = 70000, "flat"
                w = np.asarray(rand_seq(rng, kind, n), dtype=np.int16)
                f.write(struct.pack("<ii", 1, n) + w.tobytes())
                expected.append(("raw", [int(x) for x in w], {"kind": kind, "n": n}))
                if t % 8 == 0:
                    # appended class (own random stream, so the vectors above are what they always were): dense palette restarts
                    rb = np.random.default_rng(np.random.SeedSequence([778, case["seed"], t]))
                    nb = int(rb.choice([58, 64, 100, 130, 260, 600]))
                    wb = np.asarray(rand_seq(rb, "bursts", nb), dtype=np.int16)
                    f.write(struct.pack("<ii", 1, nb) + wb.tobytes())
                    expected.append(("raw", [int(x) for x in wb], {"kind": "bursts", "n": nb}))
            else:
                req = rand_volume(rng)
                arr = make_array(rng, req)
                # serialise the underlying buffer and element strides exactly as numpy presents them
                base = arr if arr.base is None else arr.base
                base = np.ascontiguousarray(base) if base.ndim != 4 or not base.flags["C_CONTIGUOUS"] else base
                off = (arr.__array_interface__["data"][0] - base.__array_interface__["data"][0]) // 2
                flatbuf = base.reshape(-1)[off:]
                strides = [s // 2 for s in arr.strides]
                od, kh, kw, idp = req["shape"]
                f.write(struct.pack("<18i", 2, req["ifm_ub"], req["ofm_ub"], od, kh, kw, idp, *strides, req["obd"], int(req["is_dw"]), int(req["is_pk"]), req["bits"],
                                    req["dec_h"], req["dec_w"], len(flatbuf)) + np.ascontiguousarray(flatbuf).tobytes())
                exp = mlwref.reorder_ref(np.asarray(arr), req["ifm_ub"], req["ofm_ub"], req["obd"], req["is_dw"], req["is_pk"], req["bits"], req["dec_h"], req["dec_w"])
                expected.append(("reorder", exp, {k: (list(v) if isinstance(v, tuple) else v) for k, v in req.items()}))
    env = dict(os.environ)
    env["ASAN_OPTIONS"] = "halt_on_error=1:abort_on_error=0:detect_stack_use_after_return=1:detect_leaks=1:exitcode=99"
    env["UBSAN_OPTIONS"] = "print_stacktrace=1:halt_on_error=1:exitcode=98"
    p = subprocess.run([drv, fin, fout], capture_output=True, text=True, env=env, timeout=800)
    counters["sanitizer_runs"] += 1
    if p.returncode != 0:
        err = p.stderr
        kind = "asan" if "AddressSanitizer" in err else "ubsan" if "runtime error" in err else "abnormal-exit-%d" % p.returncode
        import re

        m = re.search(r"(AddressSanitizer: [\w-]+|runtime error: [^\n]{0,80}|Assertion [^\n]{0,80})", err)
        fn = re.search(r"#\d+ 0x[0-9a-f]+ in (\w+)", err)
        what = re.sub(r"\d+", "N", m.group(1)) if m else kind
        mech = "sanitizer:%s:%s:%s@%s" % (case["variant"], kind, what[:70], fn.group(1) if fn else "?")
        viol.setdefault(mech, {"mech": mech, "msg": err[-1500:], "witness": {"variant": case["variant"], "seed": case["seed"], "n": case["n"]}})
    else:
        data = open(fout, "rb").read()
        pos = 0
        for kind, exp, wit in expected:
            out_len, padded = struct.unpack_from("<iq", data, pos)
            pos += 12
            enc = data[pos : pos + max(out_len, 0)]
            pos += max(out_len, 0)
            (ndec,) = struct.unpack_from("<i", data, pos)
            pos += 4
            cdec = np.frombuffer(data, dtype="<i2", count=max(ndec, 0), offset=pos).tolist()
            pos += 2 * max(ndec, 0)
            counters["sanitizer_vectors"] += 1
            dec = check_stream(exp, enc, viol, counters, stats, "san:%s" % kind, wit)
            if dec is not None and cdec != dec:
                viol.setdefault("repo-decoder-disagrees-with-reference-decoder", {"mech": "repo-decoder-disagrees-with-reference-decoder", "msg": "sanitized C decoder vs reference decoder", "witness": wit})
    import shutil

    shutil.rmtree(d, ignore_errors=True)
    stats.pop("palsizes", None)
    return {"violations": list(viol.values()), "counters": counters, "sets": {"modes": list(stats), "san_variants": [case["variant"]]}, "keys": ["san:%s:%d" % (case["variant"], case["seed"])],
            "sample": {"sanitizer_variant": case["variant"], "vectors": case["n"], "exit": p.returncode}}


def crash_to_violation(case, res):
    if case.get("part") == "oor":
        mech = "oor:%s:out-of-range-weight-crashes-the-encoder" % ("reorder_encode" if case["which"] == "reorder" else "encode")
        return {"mech": mech, "msg": "worker died (status %s) while encoding a volume containing weight %s" % (res.get("crashed"), case.get("value")), "witness": {"value": case.get("value")}}
    if case.get("part") in ("exh", "rand", "reorder"):
        return {"mech": "encoder-crash:" + case["part"], "msg": "worker died (status %s): %s" % (res.get("crashed"), (res.get("log") or "")[-300:]), "witness": {k: v for k, v in case.items() if k != "sdir"}}
    return None


def run_case(case):
    return {"exh": run_exh, "rand": run_rand, "reorder": run_reorder, "oor": run_oor, "san": run_san}[case["part"]](case)


def post_run(agg, cases, results, tier, seed, sdir):
    modes = agg.sets.get("modes", set())
    missing = [m for m in MODES_REQUIRED if m not in modes]
    agg.counters["coding_modes_seen"] = len([m for m in MODES_REQUIRED if m in modes])
    agg.counters["coding_modes_missing"] = len(missing)
    agg.sets["modes_missing"] = set(missing)


def summarise(agg, tier):
    q = tier == "quick"
    th = {"streams": 8000 if q else 100000, "exhaustive_sequences": 5000 if q else 9000, "reorder_requests": 1500 if q else 60000, "sanitizer_vectors": 1000 if q else 40000,
          "sanitizer_runs": 8 if q else 32, "out_of_range_probes": 50, "subkernel_decomposition": 100 if q else 4000, "noncontiguous": 500 if q else 20000,
          "coding_modes_seen": len(MODES_REQUIRED) - (2 if q else 0)}
    return {
        "thresholds": th,
        "rule": "exhaustive sequences over {0,+-1}^<=6, {0,1,+-255}^<=6 and a 9-symbol alphabet^<=4 (3 in quick); random sequences of 1..70000 weights from 9 distributions "
                "(palette, direct, zero-heavy, flat, piecewise, all-zero, small, extremes, offset); random volumes x (6 accelerators, 8/16-bit, block depth, depthwise, traversal, "
                "dilation 1/2, kernels up to 11x9, contiguous / transposed / strided NumPy layouts) via reorder_encode and api.npu_encode_weights; the same through ASan+UBSan builds "
                "with and without -DNDEBUG. distinct = distinct (kind, length) / (accelerator, shape, flags) requests",
        "assumptions": ["reference decoder = frozen Python port of the documented MLW bitstream; it is cross-checked against the repository's C decoder on every run",
                        "sanitizers see only the vectors driven; red-zone tools miss intra-object overflows", "MSan not used (CPython/NumPy uninstrumented)"],
    }
