"""C15 - Every block configuration used or offered is valid for the hardware.

(a) api.npu_find_block_configs over a dense grid of small operations and random larger ones x 6 accelerators: every offered config is checked
    against the independent SHRAM oracle (vv.shram) using the registers the generator emits for it, and must be accepted by
    api.npu_generate_register_command_stream for the same operation;
(b) the OFM_BLK_* / IFM_IB_END / IFM2_IB_START / AB_START / ACC_FORMAT registers of every operation of real compilations.
"""
import os

import numpy as np

from vv import decode, expect, isa, opgen, shram

PID = "C15"
LEVEL = "exploration"
CASE_TIMEOUT = 900.0
ACCS = list(isa.ACCEL)


def gen_cases(tier, seed):
    q = tier == "quick"
    cases = []
    for i in range(48 if q else 384):
        cases.append({"part": "query", "seed": seed * 2003 + i, "n": 14 if q else 60, "tier": tier})
    for i in range(24 if q else 128):
        cases.append({"part": "pipeline", "seed": seed * 2011 + i, "n": 6 if q else 16})
    return cases


def grid_spec(rng, g, t):
    """dense-ish grid over small shapes for the t-th request of this case"""
    kind = ["conv", "depthwise", "pool", "elementwise"][t % 4]
    if kind == "elementwise" and t % 8 == 3:
        # a scalar operand plus a table activation on a large feature map (the form of a stand-alone table activation): on accelerators whose table sits in the
        # ordinary banks the IFM partition must end below it
        oh, ow, oc = [(28, 32, 8), (7, 64, 16), (14, 32, 16), (32, 28, 8), (56, 16, 8), (28, 16, 16), (25, 36, 8), (13, 64, 8)][int(rng.integers(0, 8))]
        s = g.elementwise(force=dict(sub=str(rng.choice(["ADD", "MUL", "SUB", "MAX"])), oh=oh, ow=ow, oc=oc, dtype=str(rng.choice(["INT8", "UINT8"])), scalar=True, lut=True))
    elif kind == "elementwise":
        s = g.elementwise()
    elif t % 3 == 0:
        # single-row outputs with wide, deep blocks: the accumulator rules for one-row operations (Conv1D: kernel height 1 only) decide the layout here
        s = g.conv_like(kind, force=dict(oh=1, ow=int(rng.choice([24, 32, 48, 64, 100])), oc=int(rng.choice([16, 32, 64, 128])), kh=int(rng.choice([1, 2, 3, 5])),
                                         kw=int(rng.choice([1, 3])), sy=int(rng.choice([1, 1, 2]))))
    else:
        s = g.conv_like(kind)
    return s


def check_config(spec, blk, acc, words_events, viol, counters, wit):
    ev = [e for e in words_events if e.kind == "op"]
    if len(ev) != 1:
        return
    F = decode.Fields(ev[0].op)
    kind = spec["kind"]
    act = spec["act"] or {"op": "NONE_OR_RELU"}
    uses_lut = act["op"] == "TABLE_LOOKUP"
    ew_binary = kind == "elementwise" and spec.get("ifm2") is not None
    ew_scalar = kind == "elementwise" and spec.get("scalar") is not None
    kern = (F.kh, F.kw, F.sy, F.sx) if kind != "elementwise" else (1, 1, 1, 1)
    bits = opgen.DT[spec["ifm"].dtype][0]
    if tuple(F.blk) != tuple(blk):
        viol.setdefault("emitted-block-differs-from-offered", {"mech": "emitted-block-differs-from-offered", "msg": "offered %s emitted %s" % (blk, F.blk), "witness": wit})
    bad = shram.check_layout(acc, kind, spec.get("sub"), tuple(F.blk), kern, F.upscale, bits, spec["ifm"].shape[2],
                             bool(kind == "conv" and spec["traversal"] == "PART_KERNEL_FIRST"), uses_lut, F.ib_end, F.ib_start2, F.ab_start, F.acc_format, ew_binary, ew_scalar,
                             ofm_shape=spec["ofm"].shape)
    counters["layouts_checked"] += 1
    for clause, msg in bad:
        mech = "offered-config-invalid:%s:%s" % (kind, clause)
        viol.setdefault(mech, {"mech": mech, "msg": "%s on %s: %s" % (kind, acc, msg), "witness": dict(wit, block=list(blk))})


def run_query(case):
    from ethosu.vela import api

    rng = np.random.default_rng(np.random.SeedSequence([15, case["seed"]]))
    viol = {}
    counters = {"requests": 0, "configs_offered": 0, "configs_examined": 0, "layouts_checked": 0, "lut_requests": 0, "upscale_requests": 0, "wide_type_requests": 0}
    sets = {"kinds": set(), "accs": set()}
    keys = []
    sample = None
    for t in range(case["n"]):
        acc = ACCS[int(rng.integers(0, 6))]
        g = opgen.Gen(rng, acc, max_hw=int(rng.choice([12, 20, 40, 72])))
        s = grid_spec(rng, g, t)
        try:
            op, cfgs = opgen.to_api(s, acc)
        except AssertionError as e:
            counters["no_config_offered"] = counters.get("no_config_offered", 0) + 1
            continue
        except Exception as e:
            mech = "query-exception:" + type(e).__name__
            viol.setdefault(mech, {"mech": mech, "msg": str(e)[:200], "witness": {"acc": acc, "kind": s["kind"], "sub": s.get("sub")}})
            continue
        counters["requests"] += 1
        counters["configs_offered"] += len(cfgs)
        sets["kinds"].add("%s/%s" % (s["kind"], s.get("sub")))
        sets["accs"].add(acc)
        act = s["act"] or {}
        counters["lut_requests"] += int(act.get("op") == "TABLE_LOOKUP")
        counters["upscale_requests"] += int(s["upscale"] != "NONE")
        counters["wide_type_requests"] += int(s["ifm"].dtype in ("INT16", "INT32"))
        # examine every offered config for small sets, a sample for big ones (thorough: more)
        limit = 12 if case["tier"] == "quick" else 48
        idxs = range(len(cfgs)) if len(cfgs) <= limit else sorted(set([0, len(cfgs) - 1] + [int(x) for x in rng.integers(0, len(cfgs), limit - 2)]))
        uw, uh, ud = isa.ACCEL[acc]["ofm_ublock"]
        for i in idxs:
            b = cfgs[i]
            blk = (b.height, b.width, b.depth)
            counters["configs_examined"] += 1
            wit = {"acc": acc, "kind": s["kind"], "sub": s.get("sub"), "ifm": s["ifm"].as_dict(), "ofm": s["ofm"].as_dict(), "kernel": s["kernel"], "upscale": s["upscale"],
                   "act": s["act"], "seed": case["seed"], "t": t}
            if blk[0] <= 0 or blk[1] <= 0 or blk[2] <= 0 or blk[0] % uh or blk[1] % uw or blk[2] % ud or blk[0] > 32 or blk[1] > 64 or blk[2] > 128:
                mech = "offered-config-not-microblock-multiple-or-too-large"
                viol.setdefault(mech, {"mech": mech, "msg": "%s offered on %s (micro-block h,w,d = %s)" % (blk, acc, (uh, uw, ud)), "witness": wit})
            op.block_config = b
            try:
                words = api.npu_generate_register_command_stream([op], api.NpuAccelerator[opgen.ACC_API[acc]])
            except Exception as e:
                mech = "offered-config-rejected-by-generator:%s:%s" % (s["kind"], type(e).__name__)
                viol.setdefault(mech, {"mech": mech, "msg": "block %s offered for %s/%s on %s is rejected: %s" % (blk, s["kind"], s.get("sub"), acc, str(getattr(e, "data", e))[:200]), "witness": dict(wit, block=list(blk))})
                continue
            events, info = decode.decode_stream(words)
            check_config(s, blk, acc, events, viol, counters, wit)
        keys.append("q:%s:%s:%s:%s:%s" % (acc, s["kind"], s.get("sub"), s["ofm"].shape, s["kernel"]))
        if sample is None:
            sample = {"acc": acc, "kind": s["kind"], "sub": s.get("sub"), "ofm": s["ofm"].shape, "kernel": s["kernel"], "offered": [(c.height, c.width, c.depth) for c in cfgs[:6]], "n_offered": len(cfgs)}
    return {"violations": list(viol.values()), "counters": counters, "sets": {k: sorted(v) for k, v in sets.items()}, "keys": keys, "sample": sample}


def run_pipeline(case):
    from checks.c06 import spec_from_api
    from vv import cfggen, compile as vc, netgen, tflw

    rng = np.random.default_rng(np.random.SeedSequence([1515, case["seed"]]))
    viol = {}
    counters = {"pipeline_ops_checked": 0, "pipeline_compilations": 0, "pipeline_lut_ops": 0}
    keys = []
    log = vc.StreamLog().install()
    for t in range(case["n"]):
        fam = ["exact-chain", "exact-dag", "stripe-stress", "approx-tail", "lut-stress", "alias-stress", "buffer-stress", "exact-chain-big"][int(rng.integers(0, 8))]
        net = netgen.make(fam, case["seed"] * 50 + t)
        cfg = cfggen.rand_cfg(rng)
        d = os.path.join(case["sdir"], "p%d_%d" % (case["seed"], t))
        os.makedirs(d, exist_ok=True)
        mp = os.path.join(d, "n.tflite")
        open(mp, "wb").write(tflw.build(net))
        del log.calls[:]
        vc.run_inproc(mp, cfg, os.path.join(d, "o"))
        import ethosu.vela.tensor as tmod

        tmod.TensorAddressMap.clear_address_map()
        counters["pipeline_compilations"] += 1
        acc = cfg["acc"]
        for call in log.calls:
            events, info = decode.decode_stream(call["words"])
            opev = [e for e in events if e.kind in ("op", "dma")]
            for ev, apiop in zip(opev, call["ops"]):
                if ev.kind != "op":
                    continue
                s = spec_from_api(apiop)
                F = decode.Fields(ev.op)
                kind = s["kind"]
                act = s["act"] or {"op": "NONE_OR_RELU"}
                uses_lut = act["op"] == "TABLE_LOOKUP"
                counters["pipeline_lut_ops"] += int(uses_lut)
                kern = (F.kh, F.kw, F.sy, F.sx) if kind != "elementwise" else (1, 1, 1, 1)
                bits = opgen.DT[s["ifm"].dtype][0]
                bad = shram.check_layout(acc, kind, s.get("sub"), tuple(F.blk), kern, F.upscale, bits, s["ifm"].shape[2], F.part_kernel, uses_lut, F.ib_end, F.ib_start2, F.ab_start,
                                         F.acc_format, kind == "elementwise" and s.get("ifm2") is not None, kind == "elementwise" and s.get("scalar") is not None, ofm_shape=s["ofm"].shape)
                counters["pipeline_ops_checked"] += 1
                for clause, msg in bad:
                    mech = "emitted-config-invalid:%s:%s" % (kind, clause)
                    viol.setdefault(mech, {"mech": mech, "msg": "%s op %d on %s: %s" % (fam, ev.op.index, acc, msg), "witness": {"family": fam, "nseed": case["seed"] * 50 + t, "cfg": cfg}})
            keys.append("p:%s:%s" % (fam, acc))
        import shutil

        shutil.rmtree(d, ignore_errors=True)
    return {"violations": list(viol.values()), "counters": counters, "keys": keys, "sample": {"pipeline_hook_evaluations": log.evals}}


def run_case(case):
    return {"query": run_query, "pipeline": run_pipeline}[case["part"]](case)


def summarise(agg, tier):
    q = tier == "quick"
    return {
        "thresholds": {"requests": 400 if q else 15000, "configs_examined": 3000 if q else 300000, "layouts_checked": 3000 if q else 300000, "lut_requests": 30 if q else 1000,
                       "upscale_requests": 10 if q else 300, "wide_type_requests": 100 if q else 3000, "pipeline_ops_checked": 500 if q else 15000, "pipeline_lut_ops": 10 if q else 300},
        "rule": "query: random conv/depthwise/pool/elementwise requests (H,W in 1..72, depths 1..33, kernels up to 9x7, strides 1..3, dilation 1..2, 8/16/32 bit, table "
                "activations, scalar/broadcast operands, 2x upscaling) x 6 accelerators; every offered config (sampled above 12/48 per request) is emitted through the public "
                "generator and its SHRAM registers are judged by the independent oracle; pipeline: every kernel operation of real compilations. distinct = (accelerator, kind, shapes, kernel)",
        "assumptions": ["'large enough' = at least two IFM / accumulator blocks at the bank granule, computed from frozen per-accelerator tables; the compiler may reserve more",
                        "Conv1D rule: on 2-row micro-block accelerators an OFM of height 1 with kernel height 1 is sized for block height 1"],
    }
