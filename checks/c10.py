"""C10 - Splitting an operator into stripes does not change what it computes.

A. direct drive of Box.transform_with_strides_and_skirt over an exhaustive small grid (OFM height <= 12, every stripe, kernel 1..8, stride 1..3, dilation 1..2,
   SAME / VALID / explicit pads, split read offsets, concat write offsets) against an independent receptive-field function;
B. every NpuStripe the scheduler emits in real compilations (hook on generate_command_stream gives the stripe <-> emitted op pairs): OFM boxes of one pass must
   partition the operator's write region, the stripe's IFM start row / pads / implied IFM extent (decoded registers) must be the receptive field of its OFM box,
   weight boxes must equal the OFM channel range, and rows of cascade (rolling) buffers must still hold the row the consumer stripe expects when it reads them
   (row-granular writer tags over decoded addresses).
"""
import itertools
import os

import numpy as np

from vv import decode

PID = "C10"
LEVEL = "exploration"
CASE_TIMEOUT = 900.0


def gen_cases(tier, seed):
    q = tier == "quick"
    cases = []
    n = 16
    for i in range(n):
        cases.append({"part": "direct", "shard": i, "nshards": n, "tier": tier, "seed": seed})
    for i in range(48 if q else 400):
        cases.append({"part": "pipeline", "seed": seed * 5003 + i, "n": 8 if q else 24})
    for i in range(4 if q else 40):
        # appended later (slices / packs / unpacks folded into read and write offsets): own cases, the earlier ones denote what they always did
        cases.append({"part": "pipeline", "seed": seed * 5003 + 100000 + i, "n": 8 if q else 24, "fams": ["shape-ops", "grouped-conv", "approx-tail2"]})
    return cases


# ---------------------------------------------------------------------------------------------- independent receptive field
def same_total(in_sz, stride, kd):
    out = -(-in_sz // stride)
    return max((out - 1) * stride + kd - in_sz, 0)


def receptive(o0, o1, stride, kd, pad_before, in_sz):
    """rows (or columns) of the input consumed by output positions [o0, o1): -> (start, end_exclusive, pad_before_stripe, pad_after_stripe)"""
    first = o0 * stride - pad_before
    last = (o1 - 1) * stride - pad_before + kd  # exclusive
    return max(first, 0), min(last, in_sz), max(0, -first), max(0, last - in_sz)


def run_direct(case):
    from ethosu.vela.high_level_command_stream import Box
    from ethosu.vela.operation import NpuBlockType
    from ethosu.vela.shape4d import Shape4D

    viol = {}
    counters = {"direct_cases": 0, "multi_stripe_sets": 0, "with_read_offset": 0, "with_write_offset": 0}
    sample = None
    sh, ns = case["shard"], case["nshards"]
    idx = 0
    rng = np.random.default_rng(np.random.SeedSequence([10, case["seed"], sh]))
    heights = range(1, 13) if case["tier"] != "quick" else [1, 2, 3, 5, 8, 12]
    for OH, k, s, dil, padmode in itertools.product(heights, range(1, 9), (1, 2, 3), (1, 2), ("SAME", "VALID", "EXPLICIT")):
        idx += 1
        if idx % ns != sh:
            continue
        kd = (k - 1) * dil + 1
        # input height consistent with the output height and padding mode; operator-level padding (PT) by the TFLite rule
        if padmode == "SAME":
            IH = (OH - 1) * s + int(rng.integers(1, s + 1))
            PT = same_total(IH, s, kd) // 2
            expl = None
        elif padmode == "VALID":
            IH = (OH - 1) * s + kd + int(rng.integers(0, s))
            PT = 0
            expl = None
        else:
            # explicit pads come from a fused PAD, which is only fused when every pad is at most half the dilated kernel
            PT = int(rng.integers(0, kd // 2 + 1))
            PB = int(rng.integers(0, kd // 2 + 1))
            IH = (OH - 1) * s + kd - PT - PB
            if IH < 1:
                continue
            expl = (PT, 0, PB, 0)
        # the skirt is the pipeline's own encoding of the padding: obtain it from the real calc_padding_and_skirt for this operator definition
        from ethosu.vela.operation import Kernel, Padding
        from ethosu.vela.tflite_graph_optimiser import calc_padding_and_skirt

        kern = Kernel(1, k, 1, s, 1, dil)
        (vpt, _, vpb, _), skirt = calc_padding_and_skirt({"SAME": Padding.SAME, "VALID": Padding.VALID, "EXPLICIT": Padding.EXPLICIT}[padmode], kern, Shape4D(1, IH, 6, 8), expl)
        skirt = list(skirt)
        ypad = skirt[0] + skirt[2]
        if vpt != PT:
            viol.setdefault("padding:top-differs-from-operator-definition", {"mech": "padding:top-differs-from-operator-definition", "msg": "calc_padding_and_skirt gives top %d, operator definition %d" % (vpt, PT),
                                                                            "witness": dict(OH=OH, k=k, s=s, dil=dil, pad=padmode, IH=IH, PT=PT)})
        C = 8
        W = 6
        woff = int(rng.choice([0, 0, 3]))  # concat write offset (rows of the OFM tensor)
        roff = int(rng.choice([0, 0, 2]))  # split read offset (rows of the IFM tensor)
        counters["with_write_offset"] += int(woff > 0)
        counters["with_read_offset"] += int(roff > 0)
        ifm_full = Shape4D(1, IH + roff + 1, W, C) if roff else Shape4D(1, IH, W, C)
        for step in (list(range(1, OH + 1)) if case["tier"] != "quick" else sorted({1, 2, 3, OH})):
            if step > OH:
                continue
            covered = []
            for y0 in range(0, OH, step):
                y1 = min(OH, y0 + step)
                box = Box([0, y0 + woff, 0, 0], [1, y1 + woff, W, C])
                try:
                    ib, pt, pb = box.transform_with_strides_and_skirt(
                        [1, s, 1, 1], skirt, ifm_full, NpuBlockType.ConvolutionDepthWise, [0, woff, 0, 0], kd,
                        Shape4D(0, roff, 0, 0) if roff else None, Shape4D(1, IH, W, C) if roff else None, 1, None)
                except AssertionError as e:
                    mech = "transform:assertion" + (":height-read-offset" if roff else "")
                    viol.setdefault(mech, {"mech": mech, "msg": "assertion in transform_with_strides_and_skirt", "witness": dict(OH=OH, k=k, s=s, dil=dil, pad=padmode, IH=IH, PT=PT, y0=y0, y1=y1, woff=woff, roff=roff)})
                    continue
                counters["direct_cases"] += 1
                st, en, wpt, wpb = receptive(y0, y1, s, kd, PT, IH)
                got_st, got_en = int(ib.start_coord[1]) - roff, int(ib.end_coord[1]) - roff
                wit = dict(OH=OH, k=k, stride=s, dil=dil, pad=padmode, IH=IH, PT=PT, ypad=ypad, y0=y0, y1=y1, write_off=woff, read_off=roff, got=(got_st, got_en, int(pt), int(pb)), want=(st, en, wpt, wpb))
                sfx = ":height-read-offset" if roff else ""
                if en > st:  # the stripe consumes at least one real row
                    if got_st != st:
                        viol.setdefault("transform:ifm-start-row" + sfx, {"mech": "transform:ifm-start-row" + sfx, "msg": "IFM start row %d, receptive field starts at %d" % (got_st, st), "witness": wit})
                    if int(pt) != wpt:
                        viol.setdefault("transform:pad-top" + sfx, {"mech": "transform:pad-top" + sfx, "msg": "pad_top %d, receptive field needs %d" % (pt, wpt), "witness": wit})
                    if got_en < en or got_en > IH:
                        viol.setdefault("transform:ifm-end-row" + sfx, {"mech": "transform:ifm-end-row" + sfx, "msg": "IFM box ends at %d, receptive field needs rows up to %d of %d" % (got_en, en, IH), "witness": wit})
                    if int(pb) != wpb:
                        viol.setdefault("transform:pad-bottom" + sfx, {"mech": "transform:pad-bottom" + sfx, "msg": "pad_bottom %d, receptive field needs %d" % (pb, wpb), "witness": wit})
                covered.append((y0, y1))
                if sample is None and step < OH:
                    sample = wit
            if len(covered) > 1:
                counters["multi_stripe_sets"] += 1
    return {"violations": list(viol.values()), "counters": counters, "keys": ["direct:%d" % sh], "sample": sample}


# ---------------------------------------------------------------------------------------------- pipeline part
def op_padding(op):
    """(PT, PL, PB, PR) of the whole operator, recomputed for SAME/VALID from the shapes (TFLite rule), taken from the fused PAD for EXPLICIT"""
    from ethosu.vela.operation import Padding

    p = op.attrs.get("padding")
    k = op.kernel
    kdh, kdw = k.dilation.y * (k.height - 1) + 1, k.dilation.x * (k.width - 1) + 1
    ih, iw = op.ifm_shapes[0].height, op.ifm_shapes[0].width
    if op.read_shapes[0] is not None:
        ih, iw = op.read_shapes[0].height, op.read_shapes[0].width
    if p == Padding.SAME:
        ty, tx = same_total(ih, k.stride.y, kdh), same_total(iw, k.stride.x, kdw)
        return (ty // 2, tx // 2, ty - ty // 2, tx - tx // 2), (kdh, kdw), (ih, iw)
    if p == Padding.VALID:
        return (0, 0, 0, 0), (kdh, kdw), (ih, iw)
    if p == Padding.EXPLICIT and op.attrs.get("explicit_padding") is not None:
        t, l, b, r = op.attrs["explicit_padding"]
        return (int(t), int(l), int(b), int(r)), (kdh, kdw), (ih, iw)
    return None, (kdh, kdw), (ih, iw)


def analyse_call(call, v, counters):
    """stripe geometry, weight boxes, rolling-buffer row tags and the OFM partition of one emitted command stream (record of vv.compile.StreamLog).
    v(mech, msg) receives the findings; -> number of passes"""
    from ethosu.vela.high_level_command_stream import NpuStripe
    from ethosu.vela.operation import NpuBlockType, Op

    for k in ("stripes", "passes", "multi_stripe_passes", "multi_slice_passes", "receptive_checks", "rolling_rows_checked", "rolling_buffers", "unmodelled_stripes", "weight_boxes"):
        counters.setdefault(k, 0)
    events, info = decode.decode_stream(call["words"])
    opev = [e for e in events if e.kind in ("op", "dma")]
    if len(opev) != len(call["ops"]):
        return 0
    by_pass = {}
    row_tag = {}  # address of a row start -> (tensor equivalence id, row)
    for ev, apiop in zip(opev, call["ops"]):
        cmd = call["op_to_cmd"].get(apiop)
        if ev.kind != "op" or not isinstance(cmd, NpuStripe):
            continue
        counters["stripes"] += 1
        F = decode.Fields(ev.op)
        ps = cmd.ps
        op = ps.primary_op
        by_pass.setdefault(id(ps), {"ps": ps, "op": op, "boxes": []})["boxes"].append((cmd.ofm_box, cmd))
        if cmd.weight_box is not None:
            counters["weight_boxes"] += 1
            if (cmd.weight_box.start_coord[-1], cmd.weight_box.end_coord[-1]) != (cmd.ofm_box.start_coord[-1], cmd.ofm_box.end_coord[-1]):
                v("weight-box-differs-from-ofm-channel-range", "weights %s for OFM channels %s" % (cmd.weight_box, cmd.ofm_box))
        # ---- receptive field of this stripe (rows), from decoded registers
        bt = ps.npu_block_type
        conv_like = bt in (NpuBlockType.ConvolutionMxN, NpuBlockType.ConvolutionDepthWise, NpuBlockType.Pooling)
        # tile-aliased IFMs (the half-pixel bilinear lowering reads a replicated border through four tiles at one base) are outside the geometric model
        plain_tiles = len(set(F.ifm.bases)) > 1 or F.ifm.bases[1] == 0
        modelled = conv_like and F.upscale in (0, 1) and op.type != Op.Conv2DBackpropInputSwitchedBias and "padding" in op.attrs and plain_tiles
        up = 2 if F.upscale == 1 else 1
        pad, (kdh, kdw), (ih, iw) = op_padding(op) if "padding" in op.attrs else (None, (1, 1), (0, 0))
        if not modelled or pad is None or op.type == Op.Conv2DBackpropInputSwitchedBias:
            counters["unmodelled_stripes"] += 1
        else:
            wo = op.write_offset.height if op.write_offset is not None else 0
            wox = op.write_offset.width if op.write_offset is not None else 0
            y0, y1 = cmd.ofm_box.start_coord[-3] - wo, cmd.ofm_box.end_coord[-3] - wo
            x0, x1 = cmd.ofm_box.start_coord[-2] - wox, cmd.ofm_box.end_coord[-2] - wox
            ro = op.read_offsets[0].height if op.read_offsets[0] is not None else 0
            rox = op.read_offsets[0].width if op.read_offsets[0] is not None else 0
            k = op.kernel
            st, en, wpt, wpb = receptive(y0, y1, k.stride.y, kdh, pad[0], ih * up)
            sx, ex, wpl, wpr = receptive(x0, x1, k.stride.x, kdw, pad[1], iw * up)
            if up > 1:
                # nearest-neighbour upscaling: the kernel runs over the IFM replicated 2x; the stripe needs the IFM rows that the replicated rows come from,
                # and can only start on the replication grid
                counters["upscaled_receptive_checks"] = counters.get("upscaled_receptive_checks", 0) + 1
                if en > st and st % up:
                    v("stripe:upscaled-ifm-start-off-the-replication-grid", "stripe rows [%d,%d) of %s needs replicated rows [%d,%d): starts in the middle of a replicated IFM row" % (y0, y1, ps.name, st, en))
                st, en = st // up, -(-en // up)
                sx, ex = sx // up, -(-ex // up)
            counters["receptive_checks"] += 1
            got_rows = (int(cmd.ifm_box.start_coord[-3]) - ro, int(cmd.ifm_box.end_coord[-3]) - ro)
            desc = "stripe rows [%d,%d) of %s (k %dx%d dil-size, stride %d/%d, pad %s, ifm %dx%d, read offset rows %d)" % (y0, y1, ps.name, kdh, kdw, k.stride.y, k.stride.x, pad, ih, iw, ro)
            sfx = ":height-read-offset" if ro else ""
            if en > st:
                if got_rows[0] != st:
                    v("stripe:ifm-start-row-differs-from-receptive-field" + sfx, "%s: IFM box starts at row %d, receptive field at %d" % (desc, got_rows[0], st))
                if got_rows[1] < en:
                    v("stripe:ifm-box-misses-rows" + sfx, "%s: IFM box ends at %d, receptive field needs rows up to %d" % (desc, got_rows[1], en))
                if F.pad[0] != wpt or F.pad[2] != wpb:
                    v("stripe:vertical-padding-differs-from-receptive-field" + sfx, "%s: registers pad top/bottom %d/%d, receptive field needs %d/%d" % (desc, F.pad[0], F.pad[2], wpt, wpb))
                if F.ifm.height != en - st:
                    v("stripe:implied-ifm-height" + sfx, "%s: registers imply %d IFM rows, receptive field has %d" % (desc, F.ifm.height, en - st))
            if ex > sx:
                if F.pad[1] != wpl or F.pad[3] != wpr:
                    v("stripe:horizontal-padding-differs-from-receptive-field", "%s: registers pad left/right %d/%d, receptive field needs %d/%d" % (desc, F.pad[1], F.pad[3], wpl, wpr))
            if F.ofm.height != y1 - y0 or F.ofm.width != x1 - x0:
                v("stripe:ofm-size-register", "%s: OFM registers %dx%d" % (desc, F.ofm.height, F.ofm.width))
        # ---- binary elementwise operators: each operand's input region is the OFM region (write offset removed) moved by that operand's own read offset,
        # collapsed to [0, 1) along broadcast dimensions
        if bt == NpuBlockType.ElementWise and getattr(cmd, "ifm2_box", None) is not None and len(op.ifm_shapes) > 1 and cmd.ifm2_tensor is not None and cmd.ifm2_tensor.shape != []:
            try:
                wofs = [int(x) for x in op.write_offset.as_list()] if op.write_offset is not None else [0, 0, 0, 0]
                o0 = [int(a) - w_ for a, w_ in zip(cmd.ofm_box.start_coord[-4:], wofs)]
                o1 = [int(a) - w_ for a, w_ in zip(cmd.ofm_box.end_coord[-4:], wofs)]
                oshape = [int(x) for x in op.ofm_shapes[0].as_list()]
                for k_, (box_, nm_) in enumerate(((cmd.ifm_box, "ifm"), (cmd.ifm2_box, "ifm2"))):
                    ishape = [int(x) for x in op.ifm_shapes[k_].as_list()]
                    tshape = [int(x) for x in (cmd.ifm_tensor, cmd.ifm2_tensor)[k_].shape]
                    tshape = [1] * (4 - len(tshape)) + tshape[-4:]
                    if any(tshape[d] == 1 and oshape[d] != 1 for d in range(4)) or any(ishape[d] == 1 and oshape[d] != 1 for d in range(4)):
                        counters["elementwise_operand_boxes_broadcast"] = counters.get("elementwise_operand_boxes_broadcast", 0) + 1
                        continue  # broadcast operands: the box is the operand's own extent, checked by C01 / C02 end to end
                    rofs = [int(x) for x in op.read_offsets[k_].as_list()] if k_ < len(op.read_offsets) and op.read_offsets[k_] is not None else [0, 0, 0, 0]
                    full = op.read_shapes[k_] is None if k_ < len(op.read_shapes) else True
                    want0, want1 = [], []
                    for d in range(4):
                        bcast = (ishape[d] == 1 and oshape[d] != 1) if full else False
                        want0.append(rofs[d] + (0 if bcast else o0[d]))
                        want1.append(rofs[d] + (1 if bcast else o1[d]))
                    got0, got1 = [int(x) for x in box_.start_coord[-4:]], [int(x) for x in box_.end_coord[-4:]]
                    counters["elementwise_operand_boxes"] = counters.get("elementwise_operand_boxes", 0) + 1
                    counters["elementwise_operand_boxes_with_read_offset"] = counters.get("elementwise_operand_boxes_with_read_offset", 0) + int(any(rofs))
                    if len(got0) == 4 and (got0 != want0 or got1 != want1):
                        v("stripe:elementwise-operand-region-differs-from-ofm-region:" + nm_, "%s: OFM region %s..%s, read offset %s: %s box %s..%s, expected %s..%s" % (
                            ps.name, o0, o1, rofs, nm_, got0, got1, want0, want1))
            except (AttributeError, TypeError, IndexError, ValueError):
                counters["unmodelled_elementwise_boxes"] = counters.get("unmodelled_elementwise_boxes", 0) + 1
        # ---- rolling buffers: row-granular writer tags over decoded addresses
        for tens, box, fmv, is_write in ((cmd.ofm_tensor, cmd.ofm_box, F.ofm, True), (cmd.ifm_tensor, cmd.ifm_box, F.ifm, False)):
            if tens is None or len(box.start_coord) < 3:
                continue
            full_h = tens.shape[-3] if len(tens.shape) >= 3 else 1
            stor_h = tens.storage_shape[-3] if len(tens.storage_shape) >= 3 else 1
            if stor_h >= full_h:
                continue  # not a rolling buffer
            r0, r1 = int(box.start_coord[-3]), int(box.end_coord[-3])
            for row in range(r0, r1):
                try:
                    a = fmv.addr(row - r0, 0, 0)
                except Exception:
                    continue
                if is_write:
                    row_tag[(fmv.region, a)] = (tens.equivalence_id, row)
                else:
                    counters["rolling_rows_checked"] += 1
                    tag = row_tag.get((fmv.region, a))
                    if row - r0 >= F.ifm.height:
                        continue  # beyond the rows the registers make the hardware consume (the IFM box may over-approximate)
                    if tag is not None and tag != (tens.equivalence_id, row):
                        over = ":consumer-ifm-box-exceeds-receptive-field" if (r1 - r0) > F.ifm.height else ""
                        v("rolling-buffer-row-overwritten-before-read" + over, "%s reads row %d of %s at %#x but the buffer slot holds row %s (IFM box rows [%d,%d), rows consumed %d)" % (
                            ps.name, row, tens.name, a, tag[1], r0, r1, F.ifm.height))
            if is_write:
                counters["rolling_buffers"] += 1
    # ---- partition of each pass' write region
    for pid_, g in by_pass.items():
        ps, op = g["ps"], g["op"]
        counters["passes"] += 1
        if op.write_offset is not None:
            lo = [int(x) for x in op.write_offset.as_list()]
            hi = [a + b for a, b in zip(lo, [int(x) for x in op.write_shape.as_list()])]
        else:
            lo = [0, 0, 0, 0]
            hi = [int(x) for x in ps.ofm_shapes[0].as_list()]
        boxes = [(tuple(int(x) for x in b.start_coord), tuple(int(x) for x in b.end_coord)) for b, _ in g["boxes"]]
        rows = {(b[0][-3], b[1][-3]) for b in boxes}
        chans = {(b[0][-1], b[1][-1]) for b in boxes}
        counters["multi_stripe_passes"] += int(len(rows) > 1)
        counters["multi_slice_passes"] += int(len(chans) > 1)
        vol = sum(int(np.prod([e - s for s, e in zip(b[0], b[1])])) for b in boxes)
        want = int(np.prod([h - l for l, h in zip(lo, hi)]))
        inside = all(all(l <= s and e <= h for s, e, l, h in zip(b[0], b[1], lo, hi)) for b in boxes)
        overlap = False
        for i in range(len(boxes)):
            for j in range(i + 1, len(boxes)):
                if all(max(a0, b0) < min(a1, b1) for a0, a1, b0, b1 in zip(boxes[i][0], boxes[i][1], boxes[j][0], boxes[j][1])):
                    overlap = True
        if overlap:
            v("stripes-overlap", "OFM boxes of %s overlap: %s" % (ps.name, boxes[:6]))
        elif not inside or vol != want:
            v("stripes-do-not-cover-write-region", "OFM boxes of %s cover %d of %d elements of region %s..%s: %s" % (ps.name, vol, want, lo, hi, boxes[:6]))
    return len(by_pass)


def run_pipeline(case):
    from ethosu.vela.high_level_command_stream import NpuStripe
    from ethosu.vela.operation import NpuBlockType, Op
    from vv import campaign, cfggen, compile as vc, netgen, tflw

    rng = np.random.default_rng(np.random.SeedSequence([1010, case["seed"]]))
    viol = {}
    counters = {"stripes": 0, "passes": 0, "multi_stripe_passes": 0, "multi_slice_passes": 0, "receptive_checks": 0, "rolling_rows_checked": 0, "rolling_buffers": 0,
                "pipeline_compilations": 0, "unmodelled_stripes": 0, "weight_boxes": 0}
    keys = []
    log = vc.StreamLog().install()
    single = case.get("model_z") and case.get("wcfg")  # replay of one witness: the recorded model and configuration, not the regenerated batch
    for t in range(1 if single else case["n"]):
        fam = ["stripe-stress", "stripe-stress", "exact-chain", "buffer-stress", "exact-dag", "approx-tail", "exact-chain-big", "alias-stress", "stripe-resize", "stripe-resize", "stripe-resize", "stripe-resize", "mixed-width"][int(rng.integers(0, 13))]
        if case.get("fams"):
            fam = case["fams"][t % len(case["fams"])]
        if single:
            fam = case.get("wfamily", "?")
        net = netgen.make(fam, case["seed"] * 50 + t) if not single else None
        cfg = cfggen.rand_cfg(rng)
        if rng.integers(0, 2):
            cfg["optimise"] = "Size"
        if rng.integers(0, 2):
            cfg["cache"] = int(rng.choice([2048, 4096, 8192, 16384, 32768]))
        if fam == "stripe-resize":
            # the stripe heights a cascade settles on depend on how much memory is left: sweep the pressure continuously
            cfg["cache"] = int(np.exp(rng.uniform(np.log(4000), np.log(160000))))
            cfg["optimise"] = "Performance" if rng.integers(0, 3) else "Size"
        if single:
            cfg, model = case["wcfg"], campaign.unpack_model(case["model_z"])
        else:
            model = tflw.build(net)
        d = os.path.join(case["sdir"], "p%d_%d" % (case["seed"], t))
        os.makedirs(d, exist_ok=True)
        mp = os.path.join(d, "n.tflite")
        open(mp, "wb").write(model)
        del log.calls[:]
        vc.run_inproc(mp, cfg, os.path.join(d, "o"))
        import ethosu.vela.tensor as tmod

        tmod.TensorAddressMap.clear_address_map()
        counters["pipeline_compilations"] += 1
        wit = {"family": fam, "nseed": case["seed"] * 50 + t, "cfg": cfg}

        def v(mech, msg, wit=wit, model=model, fam=fam):
            if "model_z" not in wit:
                wit["model_z"] = campaign.pack_model(model)
            viol.setdefault(mech, {"mech": mech, "msg": "%s: %s" % (fam, msg), "witness": wit})

        for call in log.calls:
            npass = analyse_call(call, v, counters)
            keys.append("p:%s:%s:%d" % (fam, cfg["acc"], npass))
        import shutil

        shutil.rmtree(d, ignore_errors=True)
    return {"violations": list(viol.values()), "counters": counters, "keys": keys, "sample": {"pipeline_hook_evaluations": log.evals}}


def run_case(case):
    return {"direct": run_direct, "pipeline": run_pipeline}[case["part"]](case)


def summarise(agg, tier):
    q = tier == "quick"
    return {
        "thresholds": {"direct_cases": 6000 if q else 25000, "multi_stripe_sets": 1200 if q else 6500, "stripes": 4000 if q else 100000, "multi_stripe_passes": 100 if q else 5000,
                       "multi_slice_passes": 30 if q else 1100, "receptive_checks": 2000 if q else 50000, "rolling_rows_checked": 200 if q else 10000, "upscaled_receptive_checks": 150 if q else 4000},
        "rule": "direct: OFM height 1..12 x every stripe height x kernel 1..8 x stride 1..3 x dilation 1..2 x SAME/VALID/explicit pads x write offsets {0,3} x read offsets {0,2} "
                "(quick: reduced heights/steps); pipeline: every NpuStripe of compilations of striping-prone families under Size strategy / small caches. distinct = shards + "
                "(family, accelerator, #passes) classes",
        "assumptions": ["the IFM box may extend beyond the last consumed row (it only has to contain the receptive field); start row, pads and the implied IFM extent must be exact",
                        "operator-level padding is recomputed from shapes for SAME/VALID (TFLite rule) and taken from the fused PAD for explicit padding",
                        "upscaled / transpose-convolution / tile-aliased (resize) stripes are counted as unmodelled for the receptive-field clause; partition and rolling clauses still apply"],
    }
