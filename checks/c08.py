"""C08 - Encoded weight and scale tensors cover each output channel exactly once.

Contract on the real function: ethosu.vela.weight_compressor.encode_weight_and_scale_tensor is wrapped (harness side, no source hook) and every return value
is parsed by its recorded ranges (vv.wsref): range keys = the (core, slice) assignment, 16-byte alignment, stream order, disjointness, transfer size covers
the range, double-buffer sizes bound the slices of their parity, the scale section holds one 10-byte record per assigned channel equal to the reference
derivation (TFLite QuantizeMultiplier of the TFLite effective scale; Vela's documented variants: reduced 16-bit form for int16 with int64 bias, +1 for
away-from-zero rounding), and the weight section decodes (vv.mlwref, frozen port of the MLW format) to those channels' zero-point-corrected weights in the
hardware traversal order of the *requesting* operator.  Every cache hit is re-issued with the cache emptied (snapshot / restore bracket) and compared
byte for byte.

Workloads: (A) direct drive with synthetic operators and request sequences built to collide in the cache key; (B) the same contract around every call
made by real compilations of generated networks (real depth slicing from propose_weight_buffering).
"""
import numpy as np

from vv import campaign, isa, mlwref, refmath, wsref

PID = "C08"
LEVEL = "exploration"
FORK_PER_CASE = True
CASE_TIMEOUT = 600.0

DECODE_BUDGET = 90000  # weights per section set; larger volumes are checked structurally + scales only


def gen_cases(tier, seed):
    q = tier == "quick"
    cases = []
    for i in range(96 if q else 1600):
        cases.append({"part": "drive", "seed": seed * 7919 + i, "n": 14})
    fams = ["buffer-stress", "exact-chain", "buffer-stress", "exact-dag", "stripe-stress", "buffer-stress", "exact-chain-big", "approx-tail", "cpu-mix", "lut-stress", "shared-weights", "shared-weights"]

    def hook(rng, cfg, fam, i):
        if fam == "buffer-stress" or i % 3 == 0:
            cfg["cache"] = int(rng.choice([4096, 8192, 16384, 32768, 65536]))
            if i % 2:
                cfg["acc"] = str(rng.choice(["ethos-u65-256", "ethos-u65-512", "ethos-u65-512"]))
                cfg["mode"] = None

    cs = campaign.gen_cases(tier, seed, 8, 150, 4000, families=[f for f in fams if f != "twins"], cfg_hook=hook)
    for c in cs:
        c["part"] = "campaign"
    return cases + cs


# ------------------------------------------------------------------------------------------------------------------ reference scale derivation
def ref_scales(op, weight_tens, bias_tens):
    """-> list of (multiplier, shift) per channel (Vela shift convention: value = m * 2^-shift), or None when not derivable here"""
    from ethosu.vela.data_type import DataType
    from ethosu.vela.operation import Op, RoundingMode

    iq, oq = op.get_input_quantization(), op.get_output_quantization()
    si = iq.scale_f32 if iq is not None else 1.0
    so = oq.scale_f32 if oq is not None else 1.0
    if si is None or so is None:
        return None
    ws = op.inputs[1].quantization.scale_f32
    ws = list(np.asarray(ws).reshape(-1)) if hasattr(ws, "__iter__") or isinstance(ws, np.ndarray) else [ws]
    dt = op.inputs[0].dtype
    n = len(bias_tens.values)
    if op.explicit_scaling is not None:
        es = op.explicit_scaling
        out = [(int(m), int(s)) for s, m in zip(es.shift, es.multiplier)]
    else:
        out = []
        reduced = dt == DataType.int16 and bias_tens.dtype == DataType.int64
        for w in ws:
            if dt == DataType.uint8 or op.original_type == Op.FullyConnected:
                real = float(np.float64(_f32mul(si, w)) / np.float64(so))
            else:
                real = float(np.float64(si) * np.float64(w) / np.float64(so))
            q, e = refmath.quantize_multiplier(real)
            m, s = q, 31 - e
            if q == 0 or not 0 <= s < 64:
                m, s = 0, 16  # documented out-of-range encoding
            elif reduced:
                m = refmath.downscale_i32_to_i16(m)
                s -= 16
                if not 0 <= s < 64:
                    m, s = 0, 16
            out.append((m, s))
    if op.rounding_mode == RoundingMode.AwayZero:
        out = [(m + 1, s) for m, s in out]
    if len(out) == 1:
        out = out * n
    return out


def _f32mul(a, b):
    """product as the reader's types give it: float32 x float32 stays float32, anything wider is double"""
    if isinstance(a, np.float32) and isinstance(b, np.float32):
        return np.float32(a) * np.float32(b)
    return np.float64(a) * np.float64(b)


# ------------------------------------------------------------------------------------------------------------------ the contract
class Monitor:
    def __init__(self):
        self.viol = {}
        self.counters = {"encode_calls": 0, "cache_hits": 0, "scale_only_results": 0, "fresh_reencodings": 0, "two_core_calls": 0}
        self.stats = {}
        self.seen = set()
        self.keys = set()
        self.depth = 0
        self.witness = None
        self.label = ""

    def v(self, mech, msg):
        self.viol.setdefault(mech, {"mech": mech, "msg": msg, "witness": self.witness})

    def install(self):
        from ethosu.vela import weight_compressor as wc

        self.wc = wc
        self.orig = wc.encode_weight_and_scale_tensor
        mon = self

        def wrapped(arch, op, weight_tens, scale_tens, kernel, block_config, depth_offsets):
            if mon.depth:
                return mon.orig(arch, op, weight_tens, scale_tens, kernel, block_config, depth_offsets)
            before = {id(t) for t in wc.CompressedWeightCache.cache.values()}
            res = mon.orig(arch, op, weight_tens, scale_tens, kernel, block_config, depth_offsets)
            mon.depth += 1
            try:
                mon.check(arch, op, weight_tens, scale_tens, kernel, block_config, list(depth_offsets), res, before)
            finally:
                mon.depth -= 1
            return res

        wc.encode_weight_and_scale_tensor = wrapped

    def request(self, arch, op, weight_tens, scale_tens, kernel, block_config, depth_offsets):
        from ethosu.vela.operation import NpuBlockType, Op

        acc = isa.ACCEL[arch.accelerator_config.value]
        w = np.asarray(weight_tens.values)
        if w.ndim == 2:
            w = w.reshape((1, 1) + w.shape)
        req = {"weights": w, "zp": weight_tens.quantization.zero_point, "flip": op.type == Op.Conv2DBackpropInputSwitchedBias,
               "is_dw": op.type.npu_block_type == NpuBlockType.ConvolutionDepthWise, "dil": (int(kernel.dilation.x), int(kernel.dilation.y)),
               "ifm_bits": op.inputs[0].dtype.size_in_bits(), "ncores": acc["cores"], "ifm_ub": acc["ifm_ublock"][2], "ofm_ub": acc["ofm_ublock"][2],
               "obd": int(block_config.ofm_block.depth), "offsets": [int(d) for d in depth_offsets], "biases": None, "scales": None}
        if scale_tens is not None:
            req["biases"] = [int(b) for b in np.asarray(scale_tens.values).reshape(-1)]
            req["scales"] = ref_scales(op, weight_tens, scale_tens)
        return req

    def check(self, arch, op, weight_tens, scale_tens, kernel, block_config, depth_offsets, res, before):
        wc = self.wc
        c = self.counters
        c["encode_calls"] += 1
        wt, st = res
        req = self.request(arch, op, weight_tens, scale_tens, kernel, block_config, depth_offsets)
        what = "%s %s w%s obd=%d slices=%s cores=%d ifm%d" % (op.type.name, arch.accelerator_config.value, list(req["weights"].shape), req["obd"], depth_offsets if len(depth_offsets) < 8 else len(depth_offsets),
                                                              req["ncores"], req["ifm_bits"])
        if req["ncores"] > 1:
            c["two_core_calls"] += 1
        hit = id(wt) in before
        if hit:
            c["cache_hits"] += 1
        if st is not None:
            c["scale_only_results"] += 1
        sig = (id(wt), id(st), id(op), req["obd"], tuple(depth_offsets), req["ifm_bits"], req["flip"], req["is_dw"], req["dil"])
        if sig in self.seen:
            c["repeat_requests_same_result"] = c.get("repeat_requests_same_result", 0) + 1
            return
        self.seen.add(sig)
        from ethosu.vela.api import NpuBlockTraversal

        is_pk = wt.hw_traversal == NpuBlockTraversal.PART_KERNEL_FIRST
        self.keys.add("%s|c%d|%s|%s|sl%d|%s|%s" % (op.type.name, req["ncores"], "pk" if is_pk else "df", req["ifm_bits"], min(len(depth_offsets) - 1, 4), "hit" if hit else "miss", "split" if st is not None else "joint"))
        if is_pk and req["is_dw"]:
            self.v("part-kernel-traversal-on-depthwise", what)
        ok = wsref.check_structure(req, wt, True, st is None and scale_tens is not None, lambda m, s: self.v(m, what + ": " + s), c, "weights tensor")
        if st is not None:
            ok = wsref.check_structure(req, st, False, True, lambda m, s: self.v("scale-tensor:" + m, what + ": " + s), c, "scale tensor") and ok
        if not ok:
            return
        carrier = st if st is not None else wt
        if scale_tens is not None:
            if req["scales"] is None:
                c["scales_not_derivable"] = c.get("scales_not_derivable", 0) + 1
            else:
                wsref.check_scales(req, carrier, lambda m, s: self.v(m, what + ": " + s), c, "scales")
        vol = int(np.prod(req["weights"].shape))
        if vol <= DECODE_BUDGET:
            wsref.check_weights(req, wt, is_pk, lambda m, s: self.v(m + ((":cache-hit:" + self.label) if hit else ""), what + ": " + s), c, "weights", self.stats)
        else:
            c["decode_skipped_large"] = c.get("decode_skipped_large", 0) + 1
        if hit:
            # a cached encoding must be byte-identical to a fresh one: re-issue with the cache emptied, then restore it
            snap = dict(wc.CompressedWeightCache.cache)
            wc.CompressedWeightCache.cache.clear()
            try:
                fw, fs = self.orig(arch, op, weight_tens, scale_tens, kernel, block_config, depth_offsets)
            finally:
                wc.CompressedWeightCache.cache.clear()
                wc.CompressedWeightCache.cache.update(snap)
            c["fresh_reencodings"] += 1
            self.compare_fresh(what, wt, st, fw)

    def compare_fresh(self, what, wt, st, fw):
        what = "[%s] %s" % (self.label, what)
        def rng(t):
            return [(tuple(k), r.offset, r.weight_offset, r.weight_bytes) for k, r in t.encoded_ranges.items()]

        fb, cb = bytes(fw.buffer), bytes(wt.buffer)
        if fw.hw_traversal != wt.hw_traversal:
            self.v("cache-hit-differs-from-fresh-encoding:traversal:" + self.label, "%s: cached %s, fresh %s" % (what, wt.hw_traversal, fw.hw_traversal))
        # weight sections byte for byte (the cached tensor's scale sections belong to another operator when a separate scale tensor is returned)
        fr, cr = {tuple(k): r for k, r in fw.encoded_ranges.items()}, {tuple(k): r for k, r in wt.encoded_ranges.items()}
        if list(fr) != list(cr):
            self.v("cache-hit-differs-from-fresh-encoding:ranges:" + self.label, "%s: cached keys %s fresh %s" % (what, list(cr)[:6], list(fr)[:6]))
            return
        for k in fr:
            a, b = fr[k], cr[k]
            wa = fb[a.offset + a.weight_offset : a.offset + a.weight_offset + a.weight_bytes]
            wb = cb[b.offset + b.weight_offset : b.offset + b.weight_offset + b.weight_bytes]
            if wa != wb:
                self.v("cache-hit-differs-from-fresh-encoding:weight-bytes:" + self.label, "%s: range %s cached %d bytes, fresh %d bytes, first difference at %s" % (
                    what, k, len(wb), len(wa), next((i for i in range(min(len(wa), len(wb))) if wa[i] != wb[i]), None)))
                return
            src = st if st is not None else wt
            s = src.encoded_ranges[type(next(iter(src.encoded_ranges)))(*k)]
            sa = fb[a.offset : a.offset + a.scale_bytes]
            sb = bytes(src.buffer)[s.offset : s.offset + s.scale_bytes]
            if sa != sb:
                self.v("cache-hit-differs-from-fresh-encoding:scale-bytes:" + self.label, "%s: range %s" % (what, k))
                return
        if st is None:
            if fb != cb or list(fw.double_buffer_sizes) != list(wt.double_buffer_sizes):
                self.v("cache-hit-differs-from-fresh-encoding:buffer:" + self.label, "%s: cached %d bytes db=%s, fresh %d bytes db=%s" % (what, len(cb), wt.double_buffer_sizes, len(fb), fw.double_buffer_sizes))


# ------------------------------------------------------------------------------------------------------------------ direct drive
def _arch(name):
    from ethosu.vela import architecture_features as af

    return af.create_default_arch(af.Accelerator(name))


def make_op(rng, kind, dt, wt, geometry, shared_bias=None):
    """build a real Operation with tensors around an existing weight tensor; returns (op, kernel, bias_tens)"""
    from ethosu.vela.data_type import DataType
    from ethosu.vela.operation import Kernel, Op, Operation
    from ethosu.vela.tensor import QuantizationParameters, Tensor, TensorFormat, TensorPurpose

    kh, kw, ic, oc, dil = geometry
    optype = {"conv": Op.Conv2DBias, "dw": Op.DepthwiseConv2DBias, "fc": Op.FullyConnected, "tconv": Op.Conv2DBackpropInputSwitchedBias}[kind]
    vdt = {"int8": DataType.int8, "uint8": DataType.uint8, "int16": DataType.int16}[dt]
    op = Operation(optype, "op%d" % rng.integers(1 << 30))
    ifm_depth = oc if kind == "dw" else ic
    ifm = Tensor([1, 8, 8, ifm_depth] if kind != "fc" else [1, ifm_depth], vdt, op.name + "_ifm")
    ifm.quantization = QuantizationParameters()
    ifm.quantization.scale_f32 = np.float32(rng.choice([2.0 ** -rng.integers(2, 9), rng.uniform(0.002, 0.3)]))
    ifm.quantization.zero_point = int(rng.integers(-128, 128)) if dt == "int8" else int(rng.integers(0, 256)) if dt == "uint8" else 0
    ofm = Tensor([1, 8, 8, oc] if kind != "fc" else [1, oc], vdt, op.name + "_ofm")
    ofm.quantization = QuantizationParameters()
    ofm.quantization.scale_f32 = np.float32(rng.choice([2.0 ** -rng.integers(1, 7), rng.uniform(0.01, 0.9)]))
    ofm.quantization.zero_point = 0
    if shared_bias is not None:
        bias = shared_bias
        ifm.quantization.scale_f32 = shared_bias.consumer_list[0].inputs[0].quantization.scale_f32
        ofm.quantization.scale_f32 = shared_bias.consumer_list[0].outputs[0].quantization.scale_f32
    else:
        wide = dt == "int16" and rng.random() < 0.6
        bias = Tensor([oc], DataType.int64 if wide else DataType.int32, op.name + "_bias")
        r = rng.random()
        if wide and r < 0.3:
            vals = rng.integers(-(1 << 39), 1 << 39, oc, dtype=np.int64)
            vals[0], vals[-1] = -(1 << 39), (1 << 39) - 1
        elif r < 0.5:
            vals = rng.integers(-(1 << 31), 1 << 31, oc, dtype=np.int64)
            vals[0], vals[-1] = -(1 << 31), (1 << 31) - 1
        else:
            vals = rng.integers(-50000, 50000, oc, dtype=np.int64)
        bias.values = vals.astype(np.int64 if wide else np.int32)
        bias.purpose = TensorPurpose.FeatureMap
        bias.format = TensorFormat.NHWC
    op.add_input_tensor(ifm)
    op.add_input_tensor(wt)
    if kind == "tconv":  # [ifm, weights, output shape, bias] after the graph optimiser switched the operands
        op.add_input_tensor(Tensor([4], DataType.int32, op.name + "_oshape"))
    op.add_input_tensor(bias)
    op.set_output_tensor(ofm)
    kernel = Kernel(kw, kh, 1, 1, dil[0], dil[1])
    return op, kernel, bias


def make_weights(rng, kind, dt, geometry):
    from ethosu.vela.data_type import DataType
    from ethosu.vela.tensor import QuantizationParameters, Tensor

    kh, kw, ic, oc, dil = geometry
    wdt = "uint8" if dt == "uint8" else "int8"
    lo, hi = (0, 256) if wdt == "uint8" else (-128, 128)
    shape = [ic, oc] if kind == "fc" else [kh, kw, 1 if kind == "dw" else ic, oc]
    style = rng.integers(4)
    if style == 0:
        vals = rng.integers(lo, hi, shape)
    elif style == 1:
        vals = np.clip(np.round(rng.normal(0 if wdt == "int8" else 128, 6, shape)), lo, hi - 1).astype(np.int64)
    elif style == 2:
        vals = rng.choice([lo, hi - 1, 0 if wdt == "int8" else 128], size=shape)
    else:
        vals = (rng.random(shape) < 0.15) * rng.integers(lo, hi, shape) + (0 if wdt == "int8" else 0)
    wt = Tensor(shape, DataType.uint8 if wdt == "uint8" else DataType.int8, "w%d" % rng.integers(1 << 30))
    wt.values = vals.astype(np.uint8 if wdt == "uint8" else np.int8)
    wt.quantization = QuantizationParameters()
    per_channel = wdt == "int8" and kind != "fc" and rng.random() < 0.5
    if per_channel:
        wt.quantization.scale_f32 = rng.uniform(0.001, 0.05, oc).astype(np.float32)
    else:
        wt.quantization.scale_f32 = np.float32(rng.uniform(0.001, 0.05))
    z = rng.integers(5)
    if wdt == "uint8":
        wt.quantization.zero_point = [int(rng.integers(0, 256)), 0, 255, np.int64(rng.integers(0, 256)), int(rng.integers(100, 156))][z]
    else:
        wt.quantization.zero_point = [0, 0, np.zeros(oc, np.int64) if per_channel else 0, int(rng.integers(-128, 128)), np.int64(0)][z]
    return wt


def block_cfg(obd):
    from ethosu.vela.architecture_allocator import ArchitectureBlockConfig
    from ethosu.vela.shape4d import Shape4D

    bc = ArchitectureBlockConfig()
    bc.ofm_block = Shape4D(1, 2, 2, obd)
    return bc


def rand_offsets(rng, oc, obd):
    """what propose_weight_buffering can produce: [0, full] or [0, pre, pre+step, ..., full] with pre and step multiples of 16 (or of the block depth)"""
    if oc <= 16 or rng.random() < 0.35:
        return [0, oc]
    pre = 16 * int(rng.integers(1, max(2, oc // 16)))
    step = int(rng.choice([16, 16, 32, 48, obd if obd % 16 == 0 else 16]))
    return [0] + list(range(pre, oc, step)) + [oc]


def run_drive(case):
    from ethosu.vela import weight_compressor as wc

    rng = np.random.default_rng(np.random.SeedSequence([8, case["seed"]]))
    mon = Monitor()
    mon.install()
    acc = str(rng.choice(["ethos-u55-32", "ethos-u55-64", "ethos-u55-128", "ethos-u55-256", "ethos-u65-256", "ethos-u65-512", "ethos-u65-512", "ethos-u65-512"]))
    arch = _arch(acc)
    wc.CompressedWeightCache.cache.clear()
    history = []  # (kind, dt, geometry, wt, op, kernel, bias, obd, offsets)
    trace = []
    exceptions = {}

    def issue(kind, dt, geometry, wt, op, kernel, bias, obd, offsets, label):
        mon.label = label
        mon.witness = {"seed": case["seed"], "acc": acc, "step": len(trace), "label": label, "trace": trace + [[label, kind, dt, list(geometry[:4]), list(geometry[4]), obd, offsets]]}
        trace.append([label, kind, dt, list(geometry[:4]), list(geometry[4]), obd, offsets])
        try:
            wc.encode_weight_and_scale_tensor(arch, op, wt, bias, kernel, block_cfg(obd), offsets)
        except Exception as e:  # an exception is not a silent wrong result; recorded, not a C08 violation (C13 owns crashes)
            exceptions[type(e).__name__ + ":" + label] = str(e)[:200]
            mon.counters["exceptions"] = mon.counters.get("exceptions", 0) + 1
            return
        history.append((kind, dt, geometry, wt, op, kernel, bias, obd, offsets))

    for step in range(case["n"]):
        r = rng.random()
        if not history or r < 0.35:
            kind = str(rng.choice(["conv", "conv", "dw", "fc", "tconv"]))
            dt = str(rng.choice(["int8", "int8", "uint8", "int16"]))
            dil = (int(rng.choice([1, 1, 2])), int(rng.choice([1, 1, 2]))) if kind in ("conv", "dw") else (1, 1)
            kh, kw = (1, 1) if kind == "fc" else (int(rng.choice([1, 1, 2, 3, 3, 4, 5, 7, 9])), int(rng.choice([1, 1, 2, 3, 3, 4, 5])))
            ic = int(rng.choice([1, 2, 3, 4, 7, 8, 9, 15, 16, 17, 24, 31, 32, 33, 40, 64])) if kind != "dw" else 1
            oc = int(rng.choice([1, 2, 3, 5, 8, 15, 16, 17, 24, 31, 32, 33, 40, 48, 64, 67, 80, 96]))
            geometry = (kh, kw, ic, oc, dil)
            wt = make_weights(rng, kind, dt, geometry)
            op, kernel, bias = make_op(rng, kind, dt, wt, geometry)
            obd = int(rng.choice([4, 8, 8, 16, 16, 24, 32, 48, 64, 128]))
            issue(kind, dt, geometry, wt, op, kernel, bias, obd, rand_offsets(rng, oc, obd), "fresh")
            continue
        kind, dt, geometry, wt, op, kernel, bias, obd, offsets = history[int(rng.integers(len(history)))]
        oc = geometry[3]
        if r < 0.47:
            issue(kind, dt, geometry, wt, op, kernel, bias, obd, list(offsets), "repeat")
        elif r < 0.57:
            obd2 = int(rng.choice([8, 16, 32, 64]))
            issue(kind, dt, geometry, wt, op, kernel, bias, obd2, rand_offsets(rng, oc, obd2), "same-op-other-slicing")
        elif r < 0.70:
            # another operator sharing the weight tensor (clone keeps value_id, as the reader does) with its own bias / scales
            op2, kernel2, bias2 = make_op(rng, kind, dt, wt.clone("_c"), geometry)
            issue(kind, dt, geometry, op2.inputs[1], op2, kernel2, bias2, obd, list(offsets), "shared-weights-other-scales")
        elif r < 0.80 and not hasattr(wt.quantization.scale_f32, "__iter__"):
            # same weights and the same bias tensor in a second operator (only arises for recurrent cells, whose weights are per-tensor)
            op2, kernel2, bias2 = make_op(rng, kind, dt, wt, geometry, shared_bias=bias)
            issue(kind, dt, geometry, wt, op2, kernel2, bias2, obd, list(offsets), "shared-weights-shared-bias")
        elif r < 0.90 and dt in ("int8", "int16") and kind in ("conv", "dw", "fc"):
            dt2 = "int16" if dt == "int8" else "int8"
            op2, kernel2, bias2 = make_op(rng, kind, dt2, wt.clone("_c"), geometry)
            issue(kind, dt2, geometry, op2.inputs[1], op2, kernel2, bias2, obd, list(offsets), "shared-weights-other-ifm-type")
        elif kind in ("conv", "tconv") and geometry[4] == (1, 1):
            kind2 = "tconv" if kind == "conv" else "conv"
            op2, kernel2, bias2 = make_op(rng, kind2, dt, wt.clone("_c"), geometry)
            issue(kind2, dt, geometry, op2.inputs[1], op2, kernel2, bias2, obd, list(offsets), "shared-weights-conv-vs-transpose-conv")
        else:
            issue(kind, dt, geometry, wt, op, kernel, bias, obd, list(offsets), "repeat")
    c = mon.counters
    c["drive_sequences"] = 1
    for k, n in mon.stats.items():
        if isinstance(n, int):
            c["mode:" + k] = n
    return {"violations": list(mon.viol.values()), "counters": c, "keys": sorted(mon.keys), "sets": {"labels": sorted({t[0] for t in trace}), "exceptions": sorted(exceptions)},
            "sample": {"acc": acc, "requests": len(trace), "hits": c["cache_hits"], "labels": sorted({t[0] for t in trace})}}


# ------------------------------------------------------------------------------------------------------------------ campaign
def check_streams(log, mon):
    """what is shipped: every weight DMA of a compiled stream must copy the whole (all cores) slice it is meant to copy, and every convolution's
    per-core weight / scale address ranges must be the recorded ranges of its slice (inside the bytes that DMA delivered when the weights are buffered)"""
    from ethosu.vela.high_level_command_stream import DMA, NpuStripe
    from ethosu.vela.tensor import TensorPurpose
    from ethosu.vela.weight_compressor import WeightKey

    from vv import decode

    c = mon.counters
    for call in log.calls:
        events, _ = decode.decode_stream(call["words"])
        opev = [e for e in events if e.kind in ("op", "dma")]
        if len(opev) != len(call["ops"]):
            continue
        delivered = {}  # buffer tensor equivalence id -> (dst address, length, depth)
        dma_written = set()  # equivalence ids of every tensor some DMA of this stream writes
        ncores = call["arch"].ncores
        for ev, apiop in zip(opev, call["ops"]):
            cmd = call["op_to_cmd"].get(apiop)
            if ev.kind == "dma" and isinstance(cmd, DMA) and cmd.out_tensor is not None:
                dma_written.add(str(cmd.out_tensor.equivalence_id))
            if ev.kind == "dma" and isinstance(cmd, DMA) and cmd.in_tensor.purpose == TensorPurpose.Weights:
                d = decode.dma_fields(ev.op)
                depth = int(cmd.box.start_coord[-1])
                rs = [cmd.in_tensor.encoded_ranges.get(WeightKey(core, depth)) for core in range(ncores)]
                rs = [r for r in rs if r is not None]
                if not rs:
                    continue
                c["weight_dmas_checked"] = c.get("weight_dmas_checked", 0) + 1
                span = sum(max(wsref.range_extent(r, True), wsref.round_up(r.total_bytes, 16)) for r in rs)
                if d["length"] < span:
                    mon.v("weight-dma-shorter-than-the-slice-ranges", "DMA of depth slice %d of %s copies %d bytes, the %d core range(s) of the slice span %d bytes" % (
                        depth, cmd.in_tensor.name, d["length"], len(rs), span))
                if d["src"] != cmd.in_tensor.address + rs[0].offset:
                    mon.v("weight-dma-source-differs-from-range-offset", "DMA of depth slice %d of %s reads from %d, range starts at %d" % (depth, cmd.in_tensor.name, d["src"], cmd.in_tensor.address + rs[0].offset))
                delivered[str(cmd.out_tensor.equivalence_id)] = (d["dst"], d["length"], depth)
            elif ev.kind == "op" and isinstance(cmd, NpuStripe) and cmd.weight_tensor is not None and cmd.weight_box is not None:
                F = decode.Fields(ev.op)
                # the scale section an operation is programmed with holds one 10-byte record per output channel that this operation (this depth slice, this core) writes
                z0, z1 = int(cmd.ofm_box.start_coord[-1]), int(cmd.ofm_box.end_coord[-1])
                scl = [ln for (_, ln) in (getattr(F, "scales", None) or [])]
                if scl and z1 > z0 and F.kind in ("conv", "depthwise"):
                    c["scale_sections_checked"] = c.get("scale_sections_checked", 0) + 1
                    exp = [wsref.round_up(10 * len(range(core, z1 - z0, ncores)), 16) for core in range(ncores)]
                    exp = [e for e in exp if e]
                    if sorted(x for x in scl if x) != sorted(exp):
                        mon.v("scale-section-length-differs-from-the-channels-written", "%s writes OFM channels [%d,%d) on %d core(s): scale section lengths %s, one record per channel needs %s" % (
                            cmd.ps.primary_op.name, z0, z1, ncores, scl, exp))
                # a scale tensor of its own (same weights as another operator, other biases / scales), read where the constants lie: each core's scale section starts
                # at that tensor's own range offset for (core, depth slice)
                st = getattr(cmd, "scale_tensor", None)
                if st is not None and st is not cmd.weight_tensor and getattr(st, "encoded_ranges", None) and str(st.equivalence_id) not in dma_written and st.address is not None and F.kind in ("conv", "depthwise"):
                    want = {}
                    for core in range(ncores):
                        r_ = st.encoded_ranges.get(WeightKey(core, z0))
                        if r_ is not None and r_.scale_bytes:
                            want[int(st.address + r_.offset)] = int(wsref.round_up(r_.scale_bytes, 16))
                    have = {int(a): int(ln) for (a, ln) in (getattr(F, "scales", None) or []) if ln}
                    if want:
                        c["standalone_scale_sections_checked"] = c.get("standalone_scale_sections_checked", 0) + 1
                        if set(have) != set(want):
                            mon.v("standalone-scale-section-address-differs-from-its-range-offset", "%s (OFM channels from %d): scale sections programmed at %s, the scale tensor %s has its ranges at %s" % (
                                cmd.ps.primary_op.name, z0, sorted(have), st.name, sorted(want)))
                got = delivered.get(str(cmd.weight_tensor.equivalence_id))
                if got is None or not getattr(F, "weights", None):
                    continue
                dst, length, depth = got
                c["buffered_weight_reads_checked"] = c.get("buffered_weight_reads_checked", 0) + 1
                if F.weight_region != F.scale_region:
                    ranges = list(F.weights)
                else:
                    ranges = list(F.weights) + list(F.scales)
                for (addr, ln) in ranges:
                    if ln and not (dst <= addr and addr + ln <= dst + length):
                        mon.v("buffered-weight-range-outside-delivered-bytes", "%s reads [%d,+%d) of its weight buffer, the DMA of slice %d delivered [%d,+%d)" % (
                            cmd.ps.primary_op.name, addr, ln, depth, dst, length))


def run_campaign(case):
    from vv import compile as vc

    mon = Monitor()
    mon.install()
    mon.label = "compile"
    mon.witness = {"family": case["family"], "nseed": case["nseed"], "cfg": case["cfg"]}
    log = vc.StreamLog().install()
    c = campaign.Compiled(case)
    try:
        check_streams(log, mon)
        cnt = mon.counters
        cnt["compilations"] = 1
        cnt["compiled_ok"] = 1 if c.art is not None else 0
        cnt["campaign_encode_calls"] = cnt["encode_calls"]
        cnt["campaign_multi_slice_tensors"] = cnt.get("multi_slice_tensors", 0)
    finally:
        c.cleanup()
    for k, n in mon.stats.items():
        if isinstance(n, int):
            cnt["mode:" + k] = n
    return {"violations": list(mon.viol.values()), "counters": cnt, "keys": sorted(mon.keys),
            "sample": {"family": case["family"], "acc": case["cfg"]["acc"], "calls": cnt["encode_calls"], "hits": cnt["cache_hits"], "multi_slice": cnt.get("multi_slice_tensors", 0)}}


def run_case(case):
    return run_drive(case) if case["part"] == "drive" else run_campaign(case)


def summarise(agg, tier):
    q = tier == "quick"
    return {
        "thresholds": {"encode_calls": 2200 if q else 60000, "cache_hits": 300 if q else 6000, "fresh_reencodings": 300 if q else 6000, "scale_only_results": 60 if q else 1200,
                       "two_core_calls": 300 if q else 6000, "multi_slice_tensors": 150 if q else 3000, "campaign_multi_slice_tensors": 10 if q else 300,
                       "scale_records_checked": 30000 if q else 800000, "weight_sections_decoded": 2200 if q else 45000, "weights_compared": 2000000 if q else 50000000,
                       "campaign_encode_calls": 1000 if q else 30000, "weight_dmas_checked": 200 if q else 6000, "buffered_weight_reads_checked": 200 if q else 6000},
        "rule": "direct drive: sequences of 14 encode requests per process on one accelerator (all six, two-core Ethos-U65-512 over-weighted) over conv / depthwise / fully-connected / "
                "transpose-conv, int8 / uint8 / int16 IFM, per-tensor and per-channel scales, int32 / int64 biases incl. the 32/40-bit extremes, weight zero points (int, numpy scalar, array), "
                "kernels up to 9x5, dilation 1-2, OFM block depths 4..128, depth-slice lists as propose_weight_buffering builds them; follow-up requests repeat, re-slice, or share the weight "
                "tensor with other scales / the same bias / another IFM type / conv vs transpose-conv so that the cache key collides. campaign: the same contract around every call in real "
                "compilations with small caches (real slicing). distinct = (op type, cores, traversal, IFM bits, slices, hit/miss, joint/split) classes",
        "assumptions": ["depth-slice lists are those the scheduler can build (interior offsets multiples of 16); arbitrary odd interior offsets are not driven",
                        "volumes above %d weights are checked for structure and scales only (counter decode_skipped_large)" % DECODE_BUDGET,
                        "scale values follow TFLite's effective-scale rule plus Vela's documented variants (reduced form for int16 with int64 bias, +1 multiplier for away-from-zero rounding, explicit scaling)"],
        "max_inconclusive_frac": 0.05,
    }
