"""C02 - Every NPU memory access stays inside the region the output model declares (offline trace check over artefacts)."""
import numpy as np

from vv import campaign, decode, footprint, isa

PID = "C02"
LEVEL = "exploration"
FORK_PER_CASE = True
CASE_TIMEOUT = 300.0


def cfg_hook(rng, cfg, fam, i):
    # emphasise tiny / huge caches and dedicated-SRAM spilling
    if i % 3 == 0:
        cfg["cache"] = int(rng.choice([2048, 4096, 8192, 16384, 32768, 65536]))
    if fam == "stripe-resize" and i % 2:
        # dedicated-SRAM systems keep small feature maps in the (small) fast-scratch region: tile bases just behind a tensor leave the region quickly
        cfg["acc"] = str(rng.choice(["ethos-u65-256", "ethos-u65-512"]))
        cfg["mode"] = None
        cfg["allocator"] = "Greedy"
        cfg["cache"] = None
    if fam == "shared-weights":
        # shared filters with their own scale tensors matter when the weights are streamed through SRAM buffers
        cfg["optimise"] = "Performance"
        cfg["mode"] = None
        cfg["cache"] = None
    if fam == "buffer-stress" and i % 2:
        # weights streamed through (double) buffers in unequal depth slices need the Performance strategy and room for the buffers
        cfg["optimise"] = "Performance"
        cfg["cache"] = [None, 16384, 32768, 65536][(i // 2) % 4]
    if i % 4 == 1 and "u65" in cfg["acc"]:
        cfg["mode"] = [str(rng.choice(["Ethos_U65_High_End", "Ethos_U65_Mid_End"])), str(rng.choice(["Dedicated_Sram", "Dedicated_Sram_512KB"]))]


FAMILIES = ["buffer-stress", "exact-chain", "stripe-stress", "exact-dag", "alias-stress", "buffer-stress", "exact-chain", "shared-weights", "stripe-resize", "approx-tail",
            "buffer-stress", "mixed-width", "cpu-mix", "exact-chain-big", "lut-stress", "tiny", "exact-dag", "stripe-resize", "shared-weights", "exact-chain", "exact-chain-big"]


def gen_cases(tier, seed):
    return campaign.gen_cases(tier, seed, 2, 560, 12000, families=FAMILIES, cfg_hook=cfg_hook, extra=[("shape-ops", 24, 500), ("approx-tail2", 12, 300), ("grouped-conv", 8, 200), ("lstm", 24, 400)])


def check_artefact(c, viol, counters, sets):
    art, cfg = c.art, c.case["cfg"]
    acc = cfg["acc"]
    wit = c.witness()

    def v(mech, msg):
        viol.setdefault(mech, {"mech": mech, "msg": msg, "witness": wit})

    shram_len = isa.ACCEL[acc]["banks"] * isa.SHRAM_BANK_SIZE
    limit = campaign.arena_cache_limit(cfg)
    for n in art.npu_ops:
        if n.frame_error is not None:
            v("command-stream-frame:" + n.frame_error.clause, str(n.frame_error))
            continue
        lens = art.region_lengths(n)
        if limit is not None:
            counters["dedicated_sram_compilations"] = 1
            if lens[2] > limit:
                v("fast-scratch-exceeds-arena-cache-size", "published fast-scratch extent %d > configured arena cache size %d" % (lens[2], limit))
        try:
            events, info = decode.decode_stream(n.words)
        except decode.DecodeError as e:
            v("stream-undecodable", str(e))
            continue
        for ev in events:
            if ev.kind == "dma":
                d = decode.dma_fields(ev.op)
                fp = footprint.dma_footprint(d)
                desc = "dma#%d" % ev.op.index
                counters["dma_ops"] += 1
            elif ev.kind == "op":
                F = decode.Fields(ev.op)
                fp = footprint.op_footprint(F, acc)
                desc = "%s/%s#%d" % (F.kind, F.sub, ev.op.index)
                counters["kernel_ops"] += 1
                if F.ncores == 2:
                    counters["two_core_ops"] += 1
                if F.ifm.bases[2] or F.ofm.bases[2] or F.ifm.bases[1]:
                    counters["multi_tile_ops"] += 1
                sets["op_kinds"].add("%s/%s" % (F.kind, F.sub))
            else:
                continue
            for direction, accs in (("read", fp.reads), ("write", fp.writes)):
                for region, iv in accs.items():
                    counters["footprint_bytes"] += footprint.total_bytes(iv)
                    if region == "shram":
                        if len(iv) and (iv[0, 0] < 0 or iv[-1, 1] > shram_len):
                            v("shram-access-out-of-range:" + direction, "%s %ss SHRAM bytes [%d, %d) of %d" % (desc, direction, iv[0, 0], iv[-1, 1], shram_len))
                        continue
                    if region not in lens:
                        v("region-not-provided", "%s names region %s which no custom-operator input provides" % (desc, region))
                        continue
                    if direction == "write" and region == 0:
                        v("write-to-constants-region", "%s writes [%d, %d) in the read-only constants region" % (desc, iv[0, 0], iv[-1, 1]))
                    if len(iv) and (iv[0, 0] < 0 or iv[-1, 1] > lens[region]):
                        part = [k for k, (rg, piv) in fp.parts.items() if rg == region and len(piv) and (piv[0, 0] < 0 or piv[-1, 1] > lens[region])]
                        v("access-outside-region:%s:region%d:%s" % (direction, region, (part[0].rstrip("01") if part else "?")),
                          "%s %ss bytes up to %d of region %d whose published extent is %d (%s)" % (desc, direction, iv[-1, 1], region, lens[region], part))
                    if region == 2:
                        counters["fast_scratch_accesses"] += 1
        counters["streams"] += 1


def run_case(case):
    c = campaign.Compiled(case)
    counters = {"compilations": 1, "compiled_ok": 0, "streams": 0, "kernel_ops": 0, "dma_ops": 0, "footprint_bytes": 0, "two_core_ops": 0, "multi_tile_ops": 0,
                "fast_scratch_accesses": 0, "dedicated_sram_compilations": 0}
    sets = {"op_kinds": set(), "cfg": set()}
    viol = {}
    try:
        if c.art is not None:
            counters["compiled_ok"] = 1
            check_artefact(c, viol, counters, sets)
            sets["cfg"].add("%s/%s" % (case["cfg"]["acc"], case["cfg"].get("mode")))
    finally:
        c.cleanup()
    if case["family"] == "lstm":
        # findings about the LSTM unrolling are keyed with the operator (they are properties of that lowering, not of the footprint of an ordinary operator)
        counters["lstm_networks"] = 1
        for m_ in list(viol):
            v_ = viol.pop(m_)
            v_["mech"] = m_ + ":lstm"
            viol[v_["mech"]] = v_
    return {"violations": list(viol.values()), "counters": counters, "sets": {k: sorted(v) for k, v in sets.items()},
            "key": "%s|%s|%d" % (case["family"], case["cfg"]["acc"], counters["kernel_ops"]) if counters["kernel_ops"] else None,
            "sample": {"family": case["family"], "acc": case["cfg"]["acc"], "mode": case["cfg"].get("mode"), "kernel_ops": counters["kernel_ops"], "dma_ops": counters["dma_ops"]}}


def summarise(agg, tier):
    q = tier == "quick"
    return {
        "thresholds": {"compiled_ok": 300 if q else 9000, "kernel_ops": 3000 if q else 100000, "dma_ops": 200 if q else 8000, "multi_tile_ops": 50 if q else 2000,
                       "two_core_ops": 100 if q else 4000, "dedicated_sram_compilations": 40 if q else 1500, "fast_scratch_accesses": 100 if q else 4000},
        "rule": "compile campaign over 9 network families x random configurations (6 accelerators, 5 memory modes, Size/Performance, cache 2 KiB..4 MiB, 3 allocators, alignment, "
                "blockdep); every decoded op/DMA of every command stream in the output file is checked with its exact byte footprint against the published extents of the "
                "constants / scratch / fast-scratch tensors and SHRAM. distinct = (family, accelerator, op count) classes",
        "assumptions": ["region numbering 0/1/2 = constants/scratch/fast-scratch (custom operator input order)", "only bytes of elements actually consumed/produced are counted (no padding-only alarms)"],
        "max_inconclusive_frac": 0.05,
    }
