"""C12 - The offline arena plan is self-consistent and reported memory is sufficient (artefact checker + console/CSV parser)."""
import csv
import io
import re

import numpy as np

from vv import campaign, decode, footprint

PID = "C12"
LEVEL = "exploration"
FORK_PER_CASE = True
CASE_TIMEOUT = 300.0


def cfg_hook(rng, cfg, fam, i):
    cfg["align"] = int(rng.choice([16, 32, 64, 128, 256]))
    if i % 3 == 0:
        cfg["cache"] = int(rng.choice([4096, 16384, 65536, 393216]))


def gen_cases(tier, seed):
    fams = ["cpu-mix", "cpu-mix", "exact-dag", "alias-stress", "exact-chain", "approx-tail", "stripe-stress", "lut-stress", "cpu-mix"]
    return campaign.gen_cases(tier, seed, 12, 420, 10000, families=fams, cfg_hook=cfg_hook, extra=[("shape-ops", 24, 500), ("approx-tail2", 12, 300), ("grouped-conv", 8, 200), ("lstm", 24, 400)])


def parse_reports(c):
    """-> dict with console and csv figures in bytes"""
    out = {}
    for m in re.finditer(r"^Total (SRAM|DRAM|On-chip Flash|Off-chip Flash) used\s+([0-9.]+) KiB", c.res.stdout, re.M):
        out["console_" + {"SRAM": "sram", "DRAM": "dram", "On-chip Flash": "onflash", "Off-chip Flash": "offflash"}[m.group(1)]] = float(m.group(2)) * 1024
    try:
        rows = list(csv.DictReader(io.StringIO(open(c.res.csv_path).read())))
        if rows:
            out["csv_sram"] = float(rows[0]["sram_memory_used"]) * 1024
            out["csv_dram"] = float(rows[0]["dram_memory_used"]) * 1024
    except Exception as e:
        out["csv_error"] = str(e)
    return out


def check(c, viol, counters):
    art, cfg = c.art, c.case["cfg"]
    wit = c.witness()

    def v(mech, msg):
        viol.setdefault(mech, {"mech": mech, "msg": msg, "witness": wit})

    sg = art.sg
    offs = art.offsets
    if offs is None:
        v("offline-allocation-metadata-missing", "no OfflineMemoryAllocation metadata in the output")
        return
    if len(offs) != len(sg.tensors):
        v("offline-allocation-length", "%d offsets for %d tensors" % (len(offs), len(sg.tensors)))
        return
    scratch = {n.scratch_tensor for n in art.npu_ops}
    scratch_fast = {n.scratch_fast_tensor for n in art.npu_ops}
    containers = scratch | scratch_fast
    life = art.lifetimes()
    arena = [i for i, o in enumerate(offs) if o >= 0 and i not in containers]
    align = cfg.get("align") or 16
    for i in scratch:
        if offs[i] != 0:
            v("scratch-tensor-offset-nonzero", "scratch tensor %s at offset %d" % (sg.tensors[i].name, offs[i]))
    for i in arena:
        if offs[i] % align:
            v("cpu-tensor-alignment", "tensor %s at offset %d is not %d-byte aligned" % (sg.tensors[i].name, offs[i], align))
        if sg.tensors[i].data is not None:
            v("constant-in-arena", "constant tensor %s has an arena offset" % sg.tensors[i].name)
    counters["arena_tensors"] += len(arena)
    # pairwise overlap of tensors that are live together (operator order of the output graph)
    ext = [(offs[i], offs[i] + art.tensor_bytes(i), life.get(i, (-1, -1)), i) for i in arena]
    for a in range(len(ext)):
        for b in range(a + 1, len(ext)):
            o1, e1, (d1, u1), i1 = ext[a]
            o2, e2, (d2, u2), i2 = ext[b]
            counters["arena_pairs"] += 1
            if max(o1, o2) < min(e1, e2) and max(d1, d2) <= min(u1, u2):
                t = max(d1, d2)
                if t == min(u1, u2) and d1 != d2 and 0 <= t < len(sg.ops) and sg.ops[t].custom == "ethos-u":
                    # the last use of one and the definition of the other are the same Ethos-U operator: the NPU command stream performs this
                    # in-place update itself (its correctness is C01/C03's business); a CPU kernel sharing input and output would be an overlap
                    counters["npu_in_place_pairs"] = counters.get("npu_in_place_pairs", 0) + 1
                    continue
                # tensors defined by the same op at the same time and overlapping, or genuinely live together
                shape_only = set()
                for ti in (i1, i2):
                    uses = [(op.builtin, pos) for op in sg.ops for pos, x in enumerate(op.inputs) if x == ti]
                    if uses and all(b == 22 and pos == 1 for b, pos in uses):
                        shape_only.add(ti)  # consumed only as the run-time shape operand of RESHAPE operators
                sfx = ":run-time-shape-operand-of-reshape" if shape_only else ""
                if not sfx:
                    # operands of a CPU RESHAPE whose shape is only known at run time
                    dyn = [op for op in sg.ops if op.builtin == 22 and len(op.inputs) > 1 and op.inputs[1] >= 0 and sg.tensors[op.inputs[1]].data is None]
                    if any(i1 in op.inputs + op.outputs and i2 in op.inputs + op.outputs for op in dyn):
                        sfx = ":input-and-output-of-a-run-time-shaped-reshape"
                if not sfx:
                    # a tensor that only links two CPU RESHAPEs with run-time shapes (output of one, sole input of the other): it gets no live range at all and
                    # stays at offset 0
                    for ti, oo in ((i1, o1), (i2, o2)):
                        prod = [op for op in dyn if ti in op.outputs]
                        cons = [op for op in sg.ops if ti in op.inputs]
                        if oo == 0 and prod and cons and all(op in dyn and op.inputs[0] == ti for op in cons) and ti not in sg.outputs:
                            sfx = ":tensor-between-two-run-time-shaped-reshapes-never-allocated"
                if not sfx:
                    for (ti, dd, uu), (tj, dj, uj) in (((i1, d1, u1), (i2, d2, u2)), ((i2, d2, u2), (i1, d1, u1))):
                        if dd == -1 and ti in sg.inputs:
                            first = min([k for k, op in enumerate(sg.ops) if ti in op.inputs] or [len(sg.ops) if ti in sg.outputs else -1])  # a pass-through input is "read" when the outputs are collected
                            if first > 0 and uj < first:
                                # a graph input first read later in the graph; the other tensor is dead before that read
                                sfx = ":graph-input-reserved-only-from-its-first-use"
                v("arena-tensors-overlap-while-live" + sfx, "%s [%d,%d) live %s and %s [%d,%d) live %s" % (sg.tensors[i1].name, o1, e1, (d1, u1), sg.tensors[i2].name, o2, e2, (d2, u2)))
    extent = max([e for _, e, _, _ in ext] + [0])
    for n in art.npu_ops:
        if n.frame_error is not None:
            continue
        lens = art.region_lengths(n)
        extent = max(extent, lens[1])
        # the custom operator's own inputs/outputs lie inside the scratch tensor
        for ti in n.inputs + n.outputs:
            if offs[ti] >= 0 and offs[ti] + art.tensor_bytes(ti) > lens[1]:
                v("custom-op-io-outside-scratch-tensor", "%s [%d,%d) beyond scratch extent %d" % (sg.tensors[ti].name, offs[ti], offs[ti] + art.tensor_bytes(ti), lens[1]))
        # bytes touched by the stream in region 1 inside the scratch extent; writes must not clobber live CPU tensors
        events, info = decode.decode_stream(n.words)
        writes = []
        top = 0
        for ev in events:
            if ev.kind == "dma":
                fp = footprint.dma_footprint(decode.dma_fields(ev.op))
            elif ev.kind == "op":
                fp = footprint.op_footprint(decode.Fields(ev.op), cfg["acc"])
            else:
                continue
            for acc_ in (fp.reads, fp.writes):
                if 1 in acc_ and len(acc_[1]):
                    top = max(top, int(acc_[1][-1, 1]))
            if 1 in fp.writes:
                writes.append(fp.writes[1])
            counters["stream_ops"] += 1
        if top > lens[1]:
            v("stream-touches-arena-beyond-scratch-tensor", "command stream touches arena byte %d, scratch tensor spans %d" % (top, lens[1]))
        if writes:
            w = footprint.merge(np.concatenate(writes))
            k = n.op_index
            for o, e, (d, u), i in ext:
                if i in n.outputs:
                    continue
                if i in n.inputs and getattr(sg.tensors[i], "is_variable", False):
                    counters["state_operands_of_npu_ops"] = counters.get("state_operands_of_npu_ops", 0) + 1
                    continue  # the operator's own persistent state (LSTM output / cell state): updating it is what the operator does
                if d < k < u:  # live across this custom operator
                    counters["live_across_checks"] += 1
                    hit = footprint.intersects(w, np.array([[o, e]], dtype=np.int64))
                    if hit:
                        v("npu-writes-clobber-live-cpu-tensor", "custom op %d writes arena bytes %s inside %s [%d,%d) which is live %s" % (k, hit, sg.tensors[i].name, o, e, (d, u)))
    # reported figures
    rep = parse_reports(c)
    area = campaign.arena_area(cfg)
    fast_extent = max([art.region_lengths(n)[2] for n in art.npu_ops if n.frame_error is None] + [0])
    counters["reports_parsed"] += int("console_sram" in rep and "csv_sram" in rep)
    for src in ("console", "csv"):
        ks, kd = src + "_sram", src + "_dram"
        if area == "dram" and kd in rep and ks not in rep:
            rep[ks] = 0.0  # no SRAM line is printed when nothing is placed in SRAM
        if src == "console" and not any(k.startswith("console_") for k in rep):
            counters["console_without_memory_lines"] = counters.get("console_without_memory_lines", 0) + 1
            continue  # nothing is reported on the console (e.g. a graph without NPU operators): no figure to judge
        if ks not in rep or (area == "dram" and kd not in rep):
            v("report-unparsable:" + src, "could not parse the %s memory figures (%s)" % (src, sorted(rep)))
            continue
        fig = rep[ks] if area == "sram" else rep[kd]
        # the console prints KiB with two decimals: allow its display rounding (0.005 KiB); the CSV carries full precision
        tol = 0.005 * 1024 + 1e-6 if src == "console" else 1e-6
        if fig + tol < extent:
            v("reported-arena-below-plan:%s:%s" % (src, area), "%s reports %.0f bytes of %s, the arena plan needs %d" % (src, fig, area.upper(), extent))
        if area == "dram" and rep[ks] + tol < fast_extent:
            v("reported-sram-below-fast-scratch:%s" % src, "%s reports %.0f bytes of SRAM, the fast-scratch tensor spans %d" % (src, rep[ks], fast_extent))
    counters["arena_extent_checked"] += 1


def run_case(case):
    c = campaign.Compiled(case)
    counters = {"compilations": 1, "compiled_ok": 0, "arena_tensors": 0, "arena_pairs": 0, "stream_ops": 0, "live_across_checks": 0, "reports_parsed": 0, "arena_extent_checked": 0,
                "with_cpu_operator": 0, "with_2_npu_islands": 0}
    viol = {}
    try:
        if c.art is not None:
            counters["compiled_ok"] = 1
            ncpu = sum(1 for o in c.art.sg.ops if o.custom != "ethos-u")
            counters["with_cpu_operator"] = int(ncpu > 0 and len(c.art.npu_ops) > 0)
            counters["with_2_npu_islands"] = int(len(c.art.npu_ops) >= 2)
            check(c, viol, counters)
    finally:
        c.cleanup()
    return {"violations": list(viol.values()), "counters": counters,
            "key": "%s|%s|%s|a%s|%d" % (case["family"], case["cfg"]["acc"], case["cfg"].get("mode"), case["cfg"].get("align"), counters["arena_tensors"]) if counters["compiled_ok"] else None,
            "sample": {"family": case["family"], "acc": case["cfg"]["acc"], "mode": case["cfg"].get("mode"), "align": case["cfg"].get("align"), "arena_tensors": counters["arena_tensors"]}}


def summarise(agg, tier):
    q = tier == "quick"
    return {
        "thresholds": {"compiled_ok": 300 if q else 8000, "with_cpu_operator": 80 if q else 2000, "with_2_npu_islands": 25 if q else 800, "arena_pairs": 1000 if q else 40000,
                       "live_across_checks": 20 if q else 800, "reports_parsed": 250 if q else 7000},
        "rule": "compile campaign biased to CPU/NPU interleavings (cpu-mix, several NPU islands, multi-output DAGs) x memory modes x allocators x --cpu-tensor-alignment 16..256 x "
                "cache sizes; the OfflineMemoryAllocation plan, the tensor table, the decoded command streams, the console summary and the CSV of every compilation are checked. "
                "distinct = (family, accelerator, mode, alignment, arena tensor count) classes",
        "assumptions": ["scratch / fast-scratch tensors are containers: exempt from the pairwise test, checked by the span and clobber clauses",
                        "lifetimes = first definition .. last use in the output operator order; graph inputs from the start, outputs to the end",
                        "arena area = SRAM in Sram_Only/Shared_Sram (and Ethos-U55 default), DRAM in Dedicated_Sram modes (and Ethos-U65 default)"],
        "max_inconclusive_frac": 0.05,
    }
