"""C11 - Model interface and CPU-resident operators are preserved verbatim (artefact diff source vs output)."""
import importlib
import inspect

import numpy as np

from vv import campaign, fbr

PID = "C11"
LEVEL = "translation_validation"
FORK_PER_CASE = True
CASE_TIMEOUT = 300.0


def gen_cases(tier, seed):
    fams = ["cpu-mix", "cpu-mix", "cpu-mix", "exact-dag", "exact-chain", "approx-tail", "alias-stress", "hostile"]
    cases = campaign.gen_cases(tier, seed, 11, 420, 10000, families=fams, extra=[("shape-ops", 24, 500), ("approx-tail2", 12, 300), ("grouped-conv", 8, 200)])
    # every builtin operator of the hostile generator's lists (33 unary, 21 binary; each with its own options table type) once as a CPU-resident
    # float32 instance: the writer's operator -> options-table mapping is walked entry by entry, not sampled
    from vv import hostile

    for rep in range(1 if tier == "quick" else 6):
        for k in range(len(hostile.UNARY) + len(hostile.BINARY)):
            unary = k < len(hostile.UNARY)
            c0 = dict(cases[(k * 7 + rep) % len(cases)])
            cases.append({"family": "hostile", "nseed": int(seed * 1000003 + 900000 + rep * 1000 + k), "cfg": c0["cfg"], "hkind": 0 if unary else 1,
                          "hpick": k if unary else k - len(hostile.UNARY)})
    # ... and 47 more operators with their own options tables (reductions, gather, pad variants, pack / unpack, resize, pools and convolutions with every field set
    # to a non-default value, ...)
    for rep in range(1 if tier == "quick" else 6):
        for k in range(hostile.zoo_size()):
            c0 = dict(cases[(k * 5 + rep) % len(cases)])
            cases.append({"family": "hostile", "nseed": int(seed * 1000003 + 970000 + rep * 1000 + k), "cfg": c0["cfg"], "hkind": "zoo", "hpick": k})
    # an accelerated MEAN without keep_dims whose (rank-reduced) result leaves the Ethos-U operator: as a graph output and as the operand of a CPU operator
    from vv import netgen

    mean_idx = netgen.APPROX_TAILS.index("mean")
    for k in range(12 if tier == "quick" else 150):
        c0 = dict(cases[(k * 13) % len(cases)])
        cases.append({"family": "approx-tail", "nseed": int((seed * 1009 + k) * len(netgen.APPROX_TAILS) + mean_idx), "cfg": c0["cfg"]})
    # quantisation tables that are present but incomplete or odd (kinds 5 and 13 of the hostile generator): interface tensors and CPU operands must keep them verbatim
    for k in range(36 if tier == "quick" else 600):
        c0 = dict(cases[(k * 11) % len(cases)])
        cases.append({"family": "hostile", "nseed": int(seed * 1000003 + 950000 + k), "cfg": c0["cfg"], "hkind": 13 if k % 3 else 5})
    # optional operands written as -1 in the source (kind 15) and operators without an options table (kind 14) that stay on the CPU
    for k in range(16 if tier == "quick" else 300):
        c0 = dict(cases[(k * 17) % len(cases)])
        cases.append({"family": "hostile", "nseed": int(seed * 1000003 + 960000 + k), "cfg": c0["cfg"], "hkind": 15 if k % 4 else 14})
    return cases


_opt_names = None


def option_fields(op, buf):
    """reflectively read every field of a builtin options table through the generated accessor class (which carries schema defaults)"""
    global _opt_names
    if op.options is None or op.options_type == 0:
        return None
    if _opt_names is None:
        from ethosu.vela.tflite.BuiltinOptions import BuiltinOptions

        _opt_names = {v: k for k, v in vars(BuiltinOptions).items() if isinstance(v, int)}
    name = _opt_names.get(op.options_type)
    if name is None:
        return ("unknown-options-type", op.options_type)
    mod = importlib.import_module("ethosu.vela.tflite." + name)
    cls = getattr(mod, name)
    o = cls()
    o.Init(bytearray(buf), op.options.pos)
    out = {"__type__": name}
    for mname, m in inspect.getmembers(cls, predicate=inspect.isfunction):
        if mname.startswith("_") or mname in ("Init",) or mname.startswith("GetRootAs") or mname.endswith("BufferHasIdentifier") or mname.endswith("IsNone") or mname.endswith("AsNumpy"):
            continue
        sig = inspect.signature(m)
        if mname.endswith("Length"):
            n = getattr(o, mname)()
            base = mname[: -len("Length")]
            out[base] = [getattr(o, base)(j) for j in range(n)]
        elif len(sig.parameters) == 1:
            try:
                val = getattr(o, mname)()
            except Exception as e:
                val = "ERR:" + type(e).__name__
            if isinstance(val, bytes):
                val = val.decode("utf8", "replace")
            if hasattr(val, "Init"):
                val = "<table>"
            out[mname] = val
    return out


_defaults = {}


def default_fields(name):
    """fields of an empty table of the given options type (schema defaults)"""
    if name not in _defaults:
        import flatbuffers

        mod = importlib.import_module("ethosu.vela.tflite." + name)
        b = flatbuffers.Builder(64)
        getattr(mod, name + "Start")(b)
        off = getattr(mod, name + "End")(b)
        b.Finish(off)
        buf = bytes(b.Output())
        import struct

        class _O:
            pass

        o = _O()
        o.options_type = {v: k for k, v in _opt_names.items()}[name]
        o.options = fbr.Tbl(buf, struct.unpack_from("<I", buf, 0)[0])
        _defaults[name] = option_fields(o, buf)
    return _defaults[name]


def options_equal(so, oo):
    if so == oo:
        return True
    # an absent options table and an explicitly written table holding only schema defaults denote the same options
    for a, b in ((so, oo), (oo, so)):
        if a is None and isinstance(b, dict):
            return b == default_fields(b["__type__"])
    return False


def tensor_sig(T, with_name=True):
    return (T.name if with_name else None, tuple(T.shape), T.dtype, None if T.scale is None else tuple(T.scale), None if T.zp is None else tuple(T.zp), T.qdim if (T.scale and len(T.scale) > 1) else 0,
            tuple(T.qmin) if getattr(T, "qmin", None) else None, tuple(T.qmax) if getattr(T, "qmax", None) else None)


def live_ops(sg):
    """indices of operators that contribute to a subgraph output"""
    prod = {}
    for k, op in enumerate(sg.ops):
        for o in op.outputs:
            prod.setdefault(o, k)
    live, stack = set(), list(sg.outputs)
    seen = set()
    while stack:
        t = stack.pop()
        if t in seen:
            continue
        seen.add(t)
        k = prod.get(t)
        if k is not None and k not in live:
            live.add(k)
            stack.extend(i for i in sg.ops[k].inputs if i >= 0)
    return live


def check(c, viol, counters):
    wit = c.witness()

    def v(mech, msg):
        viol.setdefault(mech, {"mech": mech, "msg": msg, "witness": wit})

    src = fbr.RModel(c.src_bytes)
    try:
        out = fbr.RModel(c.out_bytes)
    except fbr.FbError as e:
        v("output-not-parsable-by-plain-flatbuffer-reader", str(e))
        return
    # Vela's own reader must accept the file it wrote
    try:
        from ethosu.vela import model_reader

        import contextlib
        import io

        import sys

        old_limit = sys.getrecursionlimit()
        sys.setrecursionlimit(max(old_limit, 4000))  # the reader is recursive; the command line runs it under --recursion-limit (default 4000)
        try:
            with contextlib.redirect_stdout(io.StringIO()):
                nng, _ = model_reader.read_model(c.res.out_path, model_reader.ModelReaderOptions())
        finally:
            sys.setrecursionlimit(old_limit)
        if nng is None:
            v("output-rejected-by-vela-reader", "read_model returned None")
    except RecursionError:
        counters["reread_hit_recursion_limit"] = counters.get("reread_hit_recursion_limit", 0) + 1  # a resource limit of this process, not a verdict on the file
    except Exception as e:
        v("output-rejected-by-vela-reader:" + type(e).__name__, str(e)[:200])
    ssg, osg = src.subgraphs[0], out.subgraphs[0]
    # ---- interface
    for what, a, b in (("inputs", ssg.inputs, osg.inputs), ("outputs", ssg.outputs, osg.outputs)):
        sa = [tensor_sig(ssg.tensors[i]) for i in a]
        sb = [tensor_sig(osg.tensors[i]) for i in b]
        counters["interface_tensors"] += len(sa)
        if sa != sb:
            if sorted(map(str, sa)) == sorted(map(str, sb)):
                v("interface-%s-reordered" % what, "source %s, output %s" % ([s[0] for s in sa], [s[0] for s in sb]))
            elif [s[0] for s in sa] != [s[0] for s in sb]:
                missing = [i for i in a if ssg.tensors[i].name not in [s[0] for s in sb]]
                only_consts = what == "outputs" and missing and all(ssg.tensors[i].data is not None for i in missing) and [s for s in sa if s[0] in [t[0] for t in sb]] == sb
                in_names = {ssg.tensors[i].name for i in ssg.inputs}
                by_input = what == "outputs" and len(sa) == len(sb) and all(x[0] == y[0] or (y[0] in in_names and x[1:] == y[1:]) for x, y in zip(sa, sb))
                tag = ":constant-output-dropped" if only_consts else ":output-replaced-by-graph-input" if by_input else ""
                v("interface-%s-names-or-count-differ%s" % (what, tag), "source %s, output %s" % ([s[0] for s in sa], [s[0] for s in sb]))
            else:
                d = next((x, y) for x, y in zip(sa, sb) if x != y)
                tag = ""
                prod = [op for op in ssg.ops if any(ssg.tensors[o].name == d[0][0] for o in op.outputs)]
                if what == "outputs" and tuple(d[1][1]) == tuple(d[0][1]) + (1,) and d[0][2:] == d[1][2:] and prod and prod[0].builtin == 56:
                    tag = ":trailing-unit-dimension-appended-to-accelerated-argmax-output"
                v("interface-%s-tensor-changed%s" % (what, tag), "source %s, output %s" % d)
    # ---- operators
    oprod = {}
    for k, op in enumerate(osg.ops):
        for o in op.outputs:
            nm = osg.tensors[o].name
            if nm in oprod:
                v("tensor-produced-twice", "%s is produced by output operators %d and %d" % (nm, oprod[nm], k))
            oprod[nm] = k
    onames = {T.name: i for i, T in enumerate(osg.tensors)}
    live = live_ops(ssg)
    npu_present = any(o.custom == "ethos-u" for o in osg.ops)
    for k in sorted(live):
        sop = ssg.ops[k]
        out_names = [ssg.tensors[o].name for o in sop.outputs]
        where = [oprod.get(nm) for nm in out_names]
        counters["live_source_ops"] += 1
        if all(w is None for w in where):
            # absorbed or folded: none of its outputs is produced by an operator of the output graph
            for nm in out_names:
                if nm in onames:
                    T = osg.tensors[onames[nm]]
                    consumed = any(onames[nm] in op.inputs for op in osg.ops) or onames[nm] in osg.outputs
                    if consumed and T.data is None and onames[nm] not in osg.inputs:
                        v("live-tensor-without-producer", "%s is used in the output graph but no operator produces it" % nm)
                    if T.data is not None:
                        counters["folded_to_constant"] += 1
            counters["absorbed_or_folded"] += 1
            continue
        ks = {w for w in where if w is not None}
        oop = osg.ops[sorted(ks)[0]]
        if oop.custom == "ethos-u":
            counters["absorbed_or_folded"] += 1
            continue
        counters["cpu_ops_compared"] += 1
        if len(ks) != 1 or any(w is None for w in where):
            v("cpu-op-outputs-split", "source operator %d outputs %s are produced by output operators %s" % (k, out_names, where))
            continue
        if (oop.builtin, oop.custom, oop.version) != (sop.builtin, sop.custom, sop.version):
            v("cpu-op-code-or-version-changed", "source (%s,%s,v%s) output (%s,%s,v%s)" % (sop.builtin, sop.custom, sop.version, oop.builtin, oop.custom, oop.version))
        so, oo = option_fields(sop, src.buf), option_fields(oop, out.buf)
        if not options_equal(so, oo):
            if so is None and isinstance(oo, dict):
                so = default_fields(oo["__type__"])  # an absent table denotes the schema defaults
            if oo is None and isinstance(so, dict):
                oo = default_fields(so["__type__"])
            diff = {kk: (so.get(kk), (oo or {}).get(kk)) for kk in (so or {}) if (oo or {}).get(kk) != so.get(kk)} if isinstance(so, dict) and isinstance(oo, dict) else (so, oo)
            if isinstance(diff, dict) and set(diff) == {"DepthMultiplier"} and diff["DepthMultiplier"][0] == 0:
                diff = {"DepthMultiplier-implicit-made-explicit": diff["DepthMultiplier"]}
            what = "+".join(sorted(str(kk) for kk in diff)) if isinstance(diff, dict) else "table"
            v("cpu-op-options-changed:builtin%d:%s" % (sop.builtin, what[:60]), "operator %s: %s" % (out_names, diff))
        if (sop.custom_options or b"") != (oop.custom_options or b""):
            v("cpu-op-custom-options-changed", "operator %s: %r -> %r" % (out_names, sop.custom_options, oop.custom_options))
        # wiring and operands
        sin = [None if i < 0 else ssg.tensors[i] for i in sop.inputs]
        oin = [None if i < 0 else osg.tensors[i] for i in oop.inputs]
        if [t and t.name for t in sin] != [t and t.name for t in oin]:
            sn, on = [t and t.name for t in sin], [t and t.name for t in oin]
            how = ""
            if len(on) > len(sn) and on[: len(sn)] == sn and all(x is None for x in on[len(sn):]):
                how = ":builtin%d:omitted-trailing-optional-operand-written-as-minus-one" % sop.builtin
            v("cpu-op-wiring-changed" + how, "operator %s inputs %s -> %s" % (out_names, sn, on))
        else:
            for ts, to in zip(sin, oin):
                if ts is None:
                    continue
                if tensor_sig(ts) != tensor_sig(to):
                    v("cpu-op-operand-tensor-changed", "operand %s: %s -> %s" % (ts.name, tensor_sig(ts), tensor_sig(to)))
                if (ts.data is None) != (to.data is None) or (ts.data is not None and bytes(ts.data) != bytes(to.data)):
                    # an operand that was dynamic in the source may legitimately be a folded constant now; a constant must stay byte-identical
                    if ts.data is not None:
                        v("cpu-op-constant-operand-changed", "constant operand %s of %s differs (%d -> %s bytes)" % (ts.name, out_names, len(ts.data), None if to.data is None else len(to.data)))
        for o1, o2 in zip(sop.outputs, oop.outputs):
            if tensor_sig(ssg.tensors[o1]) != tensor_sig(osg.tensors[o2]):
                v("cpu-op-output-tensor-changed", "%s -> %s" % (tensor_sig(ssg.tensors[o1]), tensor_sig(osg.tensors[o2])))
    # ---- order respects data dependencies
    defined = set(osg.inputs) | {i for i, T in enumerate(osg.tensors) if T.data is not None}
    # tensors that are dangling in the source as well (no producer, no data, not an input) are not the compiler's doing
    sprod = {ssg.tensors[o].name for op in ssg.ops for o in op.outputs} | {ssg.tensors[i].name for i in ssg.inputs} | {T.name for T in ssg.tensors if T.data is not None}
    defined |= {i for i, T in enumerate(osg.tensors) if T.name in {t.name for t in ssg.tensors} and T.name not in sprod}
    for k, op in enumerate(osg.ops):
        for i in op.inputs:
            if i >= 0 and i not in defined:
                # scratch tensors of the Ethos-U operator are plain arena placeholders
                if op.custom == "ethos-u" and i in op.inputs[0:4]:
                    continue  # command stream / constants / scratch containers of the Ethos-U operator
                v("operator-order-violates-dependency", "output operator %d uses %s before it is produced" % (k, osg.tensors[i].name))
        defined |= set(op.outputs)
    counters["output_ops"] += len(osg.ops)
    counters["with_cpu_and_npu"] += int(npu_present and any(o.custom != "ethos-u" for o in osg.ops))
    counters["npu_islands_ge2"] += int(sum(1 for o in osg.ops if o.custom == "ethos-u") >= 2)


def run_case(case):
    c = campaign.Compiled(case)
    counters = {"programs": 1, "compiled_ok": 0, "interface_tensors": 0, "live_source_ops": 0, "absorbed_or_folded": 0, "folded_to_constant": 0, "cpu_ops_compared": 0, "output_ops": 0,
                "with_cpu_and_npu": 0, "npu_islands_ge2": 0}
    viol = {}
    sets = {}
    try:
        if c.art is not None or c.out_bytes is not None:
            counters["compiled_ok"] = 1
            check(c, viol, counters)
            sets["cpu_kinds"] = [k for k in c.net.info.get("kinds", []) if k.startswith("cpu:")]
    finally:
        c.cleanup()
    return {"violations": list(viol.values()), "counters": counters, "sets": sets,
            "key": "%s|%s|%d|%d" % (case["family"], ",".join(c.net.info.get("kinds", [])), counters["cpu_ops_compared"], counters["absorbed_or_folded"]) if counters["compiled_ok"] else None,
            "sample": {"family": case["family"], "kinds": c.net.info.get("kinds"), "cpu_ops_compared": counters["cpu_ops_compared"], "absorbed": counters["absorbed_or_folded"]}}


def summarise(agg, tier):
    q = tier == "quick"
    c = agg.counters
    return {
        "thresholds": {"compiled_ok": 300 if q else 8000, "cpu_ops_compared": 150 if q else 4000, "with_cpu_and_npu": 80 if q else 2000, "npu_islands_ge2": 25 if q else 800,
                       "interface_tensors": 700 if q else 20000},
        "coverage": {"programs": c.get("compiled_ok", 0), "disagreements_checked": len(agg.violations)},
        "rule": "source/output pairs of generated networks mixing NPU-supported operators with CPU-only ones (third-party custom ops with option bytes, NEG, FLOOR_DIV, REVERSE_V2, "
                "dynamic-weight convolutions, stride-4 convolutions, intermediate outputs, pass-through inputs, extra inputs) plus regular and hostile families x configurations; both "
                "files are parsed by the independent reader, builtin options are compared through the generated accessor classes. distinct = (family, kinds, #cpu ops, #absorbed)",
        "assumptions": ["a live source operator is 'absorbed or folded' when none of its output tensors is produced by an operator of the output graph, or the producer is an Ethos-U operator",
                        "tensor identity is by name"],
        "max_inconclusive_frac": 0.05,
    }
