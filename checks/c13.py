"""C13 - Any structurally valid model either compiles or is rejected with a diagnosis (outcome classifier)."""
import os

import numpy as np

from vv import cfggen, compile as vc, fbr, hostile, netgen, tflw

PID = "C13"
LEVEL = "exploration"
FORK_PER_CASE = True
CASE_TIMEOUT = 240.0

REGULAR = ["exact-chain", "cpu-mix", "exact-dag", "approx-tail", "cpu-mix", "stripe-stress", "buffer-stress", "cpu-mix", "lut-stress", "alias-stress"]
# the hostile sub-generators in a fixed cycle (binary and wide-types, whose dtype x shape product is the largest, twice)
HOSTILE_CYCLE = list(range(hostile.N_KINDS)) + [1, 8]
VERBOSE_FLAGS = ["--verbose-graph", "--verbose-quantization", "--verbose-packing", "--verbose-tensor-purpose", "--verbose-tensor-format",
                 "--verbose-schedule", "--verbose-allocation", "--verbose-high-level-command-stream", "--verbose-register-command-stream",
                 "--verbose-operators", "--verbose-weights", "--verbose-performance", "--verbose-progress", "--show-cpu-operations",
                 "--timing", "--show-subgraph-io-summary", "--enable-debug-db", "--verbose-config", "--force-symmetric-int-weights",
                 "--verbose-all", "--subgraph-output"]


def gen_cases(tier, seed):
    n = 720 if tier == "quick" else 12000
    rng = np.random.default_rng(np.random.SeedSequence([13, seed]))
    cases = []
    for i in range(n):
        fam = "hostile" if i % 2 == 0 else REGULAR[(i // 2) % len(REGULAR)]
        cfg = cfggen.rand_cfg(rng)
        if rng.integers(0, 4) == 0:
            k = int(rng.integers(1, 4))
            cfg["flags"] = [str(f) for f in rng.choice(VERBOSE_FLAGS, k, replace=False)]
        if i % 6 == 5:
            # every reporting option on its own, on networks and systems where whole report sections are empty (single operator, no SRAM use, no DMA)
            fam = "tiny"
            cfg["flags"] = [VERBOSE_FLAGS[(i // 6) % len(VERBOSE_FLAGS)]]
            cfg["acc"] = ["ethos-u65-256", "ethos-u55-128", "ethos-u65-512", "ethos-u55-32"][(i // 6) % 4]
            cfg["mode"] = None if (i // 6) % 3 else cfg.get("mode")
            cfg["cache"] = [None, 0, 1024][(i // 12) % 3]
        case = {"family": fam, "nseed": int(seed * 1000003 + i), "cfg": cfg, "cli": bool(i % 3 == 0) if tier == "quick" else bool(i % 8 == 0)}
        if fam == "hostile":
            case["hkind"] = HOSTILE_CYCLE[(i // 2) % len(HOSTILE_CYCLE)]  # every sub-generator gets its share on every seed
        cases.append(case)
    for k in range(hostile.zoo_size() * (1 if tier == "quick" else 6)):
        # the operator zoo: one CPU-resident float32 instance of 47 further operators with every option set
        cases.append({"family": "hostile", "nseed": int(seed * 1000003 + 800000 + k), "cfg": cfggen.rand_cfg(rng), "hkind": "zoo", "hpick": k, "cli": k % 4 == 0})
    for k in range(48 if tier == "quick" else 800):
        # appended later: rank-changing memory-only operators inside accelerated flows, EXP / SQUARED_DIFFERENCE lowerings
        cases.append({"family": ["shape-ops", "approx-tail2", "grouped-conv", "lstm"][k % 4], "nseed": int(seed * 1000003 + 900000 + k), "cfg": cfggen.rand_cfg(rng), "cli": k % 6 == 0})
    for k in range(30 if tier == "quick" else 500):
        cases.append({"family": "lstm", "nseed": int(seed * 1000003 + 970000 + k), "cfg": cfggen.rand_cfg(rng), "cli": k % 6 == 0})
    for k in range(24 if tier == "quick" else 400):
        # appended later: the output of a compilation is compiled again
        cases.append({"family": ["tiny", "exact-chain", "cpu-mix", "shape-ops", "approx-tail", "lut-stress"][k % 6], "nseed": int(seed * 1000003 + 950000 + k), "cfg": cfggen.rand_cfg(rng), "cli": False, "recompile": True})
    return cases


def make_net(case):
    if case["family"] == "hostile" and case.get("hkind") == "zoo":
        return hostile.fam_zoo(case["nseed"], case.get("hpick", 0))
    if case["family"] == "hostile":
        return hostile.fam_hostile(case["nseed"], case.get("hkind"))
    return netgen.make(case["family"], case["nseed"])


def classify(res, source_ok=True):
    """-> (verdict, mech, msg).  verdict in ok-compiled / ok-rejected / violation"""
    if res.rc is None:
        return "timeout", None, "wall-clock watchdog"
    if res.exc is not None:
        # the same innermost frame can fail for different reasons: an absent (None) value is a mechanism of its own
        why = ":none-value" if res.exc[0] == "TypeError" and "NoneType" in str(res.exc[1]) else ""
        return "violation", "internal-exception:" + res.mech() + why, "%s: %s" % (res.exc[0], res.exc[1])
    text = (res.stdout or "") + (res.stderr or "")
    if res.rc == 0:
        if not (res.out_path and os.path.exists(res.out_path)):
            return "violation", "exit0-without-output", "exit status 0 but no output model was written"
        try:
            m = fbr.RModel(open(res.out_path, "rb").read())
            if not m.subgraphs:
                return "violation", "output-unparsable", "output has no subgraph"
        except Exception as e:
            return "violation", "output-unparsable", "output does not parse: %s" % e
        return "ok-compiled", None, None
    if "Traceback (most recent call last)" in text:
        return "violation", "internal-exception:unparsed-traceback", text[-400:]
    if res.rc == 1 and "Error:" in text:
        return "ok-rejected", None, text[text.find("Error:"):][:200]
    if res.rc == 2 and "usage:" in text:
        return "violation", "valid-options-rejected-by-argparse", text[-300:]
    if res.rc is not None and res.rc < 0:
        return "violation", "killed-by-signal-%d" % (-res.rc), text[-300:]
    return "violation", "nonzero-exit-without-diagnostic:rc=%s" % res.rc, text[-300:]


def run_case(case):
    net = make_net(case)
    data = tflw.build(net)
    fbr.RModel(data)  # structurally valid by construction; the independent reader must agree
    d = os.path.join(case["sdir"], "m%d" % case["nseed"])
    os.makedirs(d, exist_ok=True)
    mp = os.path.join(d, "net.tflite")
    with open(mp, "wb") as f:
        f.write(data)
    counters = {"models": 1}
    sets = {"family": [net.info["family"]], "acc": [case["cfg"]["acc"]], "mode": [str(case["cfg"].get("mode"))], "alloc": [case["cfg"]["allocator"]]}
    res = vc.run_inproc(mp, case["cfg"], os.path.join(d, "out"))
    v, mech, msg = classify(res)
    counters["inproc_" + v] = 1
    violations = []
    inconc = None
    final = v
    if v == "violation" or case.get("cli"):
        rc = vc.run_cli(mp, case["cfg"], os.path.join(d, "outcli"), timeout=200)
        v2, mech2, msg2 = classify(rc)
        counters["cli_confirmed_outcomes"] = 1
        counters["cli_" + v2] = 1
        final = v2
        if v2 == "violation":
            violations.append({"mech": mech2, "msg": msg2, "witness": {"argv": rc.argv[1:], "family": net.info["family"], "nseed": case["nseed"],
                                                                      "stderr_tail": (rc.stderr or "")[-1500:]}})
        elif v2 == "timeout":
            inconc = "cli watchdog"
        elif v == "violation":
            # in-process candidate not confirmed by the real CLI: not reported (the CLI is the verdict)
            counters["inproc_candidate_not_confirmed"] = 1
        if v2 in ("ok-compiled", "ok-rejected") and v in ("ok-compiled", "ok-rejected") and v != v2:
            counters["inproc_cli_outcome_differs"] = 1
    if case.get("recompile") and v == "ok-compiled" and res.out_path and os.path.exists(res.out_path):
        # the compiler's own output is a structurally valid model too (Ethos-U custom operators with their command stream / constants / scratch operands, the
        # offline-allocation metadata): feeding it to the command line again must compile (the custom operators stay as they are) or be rejected with a diagnosis
        rc2 = vc.run_cli(res.out_path, case["cfg"], os.path.join(d, "outre"), timeout=200)
        v3, mech3, msg3 = classify(rc2)
        counters["recompiled_outputs"] = 1
        counters["recompiled_" + v3] = 1
        if v3 == "violation":
            violations.append({"mech": "recompiled-output:" + mech3, "msg": "compiling the model this compilation wrote: " + str(msg3), "witness": {"argv": rc2.argv[1:], "family": net.info["family"], "nseed": case["nseed"],
                                                                                                                       "stderr_tail": (rc2.stderr or "")[-1500:]}})
        elif v3 == "timeout":
            inconc = "cli watchdog (recompile)"
    if net.info["family"] == "lstm":
        # findings about the LSTM unrolling are keyed with the operator: a crash at the same frame for another reason / another network is a different finding
        for v_ in violations:
            v_["mech"] += ":lstm"
    sets["outcome"] = [final]
    if final == "ok-rejected":
        sets["reject_msgs"] = [(msg or "")[:80]]
    out = {"violations": violations, "inconclusive": inconc, "counters": counters, "sets": sets,
           "key": "%s|%s|%s" % (net.info["family"], ",".join(net.info["kinds"]), final),
           "sample": {"family": net.info["family"], "kinds": net.info["kinds"], "cfg": cfggen.cfg_key(case["cfg"]), "outcome": final, "flags": case["cfg"].get("flags")}}
    import shutil

    shutil.rmtree(d, ignore_errors=True)
    return out


def summarise(agg, tier):
    q = tier == "quick"
    return {
        "thresholds": {"models": 450 if q else 8000, "cli_confirmed_outcomes": 120 if q else 1200, "inproc_ok-compiled": 100 if q else 3000},
        "rule": "case = (generated model, option set); families: 'hostile' (21 sub-generators: every unary/binary builtin x 11 dtypes x rank 0-5, "
                "batch>1, no-op graphs, kernel extremes, odd/missing/per-axis/mismatched quantisation, empty buffers, zero dims, ...) and the 8 regular "
                "families; distinct = distinct (family, operator kinds, outcome) triples",
        "assumptions": ["models are structurally valid by construction and are re-parsed by the independent reader before use",
                        "the CLI launcher differs from the `vela` console script only in loading the codec rebuilt from the working tree",
                        "wall-clock watchdog firing is inconclusive, not a violation"],
        "max_inconclusive_frac": 0.05,
    }
