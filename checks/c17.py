"""C17 - The driver payload frames the command stream correctly (independent frame parser)."""
import os
import struct

import numpy as np

PID = "C17"
LEVEL = "exploration"
CASE_TIMEOUT = 600.0

from vv.payload import ACC_CLI, EXPECT_CFG, ID_WORD, FrameError, parse_payload  # noqa: E402,F401


def gen_cases(tier, seed):
    q = tier == "quick"
    cases = []
    n = 16
    for i in range(n):
        cases.append({"part": "api", "shard": i, "nshards": n, "tier": tier, "seed": seed})
    cases.append({"part": "limit", "tier": tier})
    cases.append({"part": "genlimit", "tier": tier})
    for i in range(16 if q else 64):
        cases.append({"part": "compiled", "seed": seed * 31 + i, "n": 4 if q else 12})
    return cases


def run_api(case):
    from ethosu.vela import api
    from ethosu.vela.errors import VelaError

    rng = np.random.default_rng(np.random.SeedSequence([17, case["seed"], case["shard"]]))
    viol = {}
    counters = {"payloads": 0, "payload_words": 0}
    keys = set()
    sample = None
    maxlen = 600 if case["tier"] == "quick" else 4096
    lengths = [n for n in range(0, maxlen + 1) if n % case["nshards"] == case["shard"]]
    lengths += [int(x) for x in rng.integers(maxlen, 1 << 18, 6 if case["tier"] == "quick" else 40)]
    if case["shard"] == 0:
        lengths += [65535, 65536, 65537, (1 << 17) - 1, 1 << 17]
    # lengths whose word count needs the upper bits of the 24-bit length field (split over two fields of the header)
    if case["shard"] == 1:
        lengths += [(1 << 20) + 3] + ([(1 << 22) + 1] if case["tier"] != "quick" else [])
    if case["shard"] == 2:
        lengths += [0x234567] + ([0xF00001, (1 << 23) + 7] if case["tier"] != "quick" else [])
    if case["shard"] == 3:
        lengths += [1 << 20, (1 << 16) * 17]
    accs = list(api.NpuAccelerator)
    for k, n in enumerate(lengths):
        style = int(rng.integers(0, 4))
        if style == 0:
            words = rng.integers(0, 1 << 32, n, dtype=np.uint64).tolist()
        elif style == 1:
            words = [0xFFFFFFFF] * n
        elif style == 2:
            words = list(range(n))
        else:
            words = (rng.integers(0, 1 << 32, n, dtype=np.uint64) | 0x80000000).tolist()
        for acc in (accs if n <= 64 or k % 7 == 0 else [accs[k % len(accs)]]):
            try:
                data = api.npu_create_driver_payload(words, acc)
            except Exception as e:
                mech = "api:exception:" + type(e).__name__
                viol.setdefault(mech, {"mech": mech, "msg": "%d words on %s: %s" % (n, acc.name, str(e)[:200]), "witness": {"n": n, "acc": acc.name}})
                continue
            counters["payloads"] += 1
            counters["payload_words"] += n
            keys.add("%d:%s" % (n, acc.name))
            try:
                got = parse_payload(bytes(data), acc.name)
                if got != [int(x) for x in words]:
                    raise FrameError("words-altered", "command words differ from the input (first difference at %d)" % next(i for i in range(n) if got[i] != words[i]))
            except FrameError as e:
                mech = "frame:" + e.clause
                viol.setdefault(mech, {"mech": mech, "msg": "%d words on %s: %s" % (n, acc.name, e), "witness": {"n": n, "acc": acc.name, "style": style, "head": bytes(data[:64]).hex()}})
            if sample is None and n > 3:
                sample = {"n_words": n, "acc": acc.name, "payload_head_hex": bytes(data[:48]).hex()}
    return {"violations": list(viol.values()), "counters": counters, "keys": sorted(keys), "sample": sample}


def dma_ops(api, n):
    """n DMA operations none of whose registers can be elided (9 words each)"""
    ops = []
    for i in range(n):
        a = 0x1000 + 32 * (i % 1000) + (16 if i % 2 else 0)
        ops.append(api.NpuDmaOperation(api.NpuAddressRange(i % 2, a, 16 * (1 + i % 3)), api.NpuAddressRange(1 + i % 2, 0x100000 + a, 16 * (1 + i % 3))))
    return ops


def run_generator_limit(case):
    """the command stream generator must refuse streams of 16 MiB or more (hardware limit) and accept the ones just below, which must then be framed correctly"""
    from ethosu.vela import api
    from ethosu.vela.errors import VelaError

    viol = {}
    counters = {"generator_limit_probes": 0}
    acc = api.NpuAccelerator.Ethos_U65_256
    probe = api.npu_generate_register_command_stream(dma_ops(api, 1000), acc)
    per_op = (len(probe) - 1) / 1000.0
    n_over = int((1 << 22) / per_op) + 400
    counters["generator_limit_probes"] += 1
    try:
        words = api.npu_generate_register_command_stream(dma_ops(api, n_over), acc)
        if 4 * len(words) >= 1 << 24:
            mech = "limit:generator-accepts-stream-above-16MiB"
            viol.setdefault(mech, {"mech": mech, "msg": "%d DMA operations -> %d words = %d bytes accepted (hardware limit 16 MiB = %d bytes)" % (n_over, len(words), 4 * len(words), 1 << 24),
                                   "witness": {"n_ops": n_over}})
        else:
            counters["generator_limit_probes"] -= 1  # the probe stayed below the limit: nothing observed
        del words
    except VelaError:
        pass
    except Exception as e:
        mech = "limit:generator-non-vela-exception:" + type(e).__name__
        viol.setdefault(mech, {"mech": mech, "msg": str(e)[:200], "witness": {"n_ops": n_over}})
    if case["tier"] != "quick":
        n_under = int(((1 << 22) - 64) / per_op) - 400
        counters["generator_limit_probes"] += 1
        try:
            words = api.npu_generate_register_command_stream(dma_ops(api, n_under), acc)
            if 4 * len(words) >= 1 << 24:
                counters["generator_limit_probe_misjudged"] = 1
            else:
                data = api.npu_create_driver_payload(words, acc)
                if len(data) != 4 * (8 + len(words)):
                    mech = "frame:payload-size"
                    viol.setdefault(mech, {"mech": mech, "msg": "%d words framed into %d bytes" % (len(words), len(data)), "witness": {"n_ops": n_under}})
        except Exception as e:
            mech = "limit:generator-rejects-stream-below-16MiB:" + type(e).__name__
            viol.setdefault(mech, {"mech": mech, "msg": "%d DMA operations (about %d words): %s" % (n_under, int(n_under * per_op), str(getattr(e, "data", e))[:200]), "witness": {"n_ops": n_under}})
    return {"violations": list(viol.values()), "counters": counters, "keys": ["generator-limit"], "sample": None}


def run_limit(case):
    """streams at/above the size limit must be rejected with a Vela error; the largest legal stream must be framed correctly (thorough)"""
    from ethosu.vela import api
    from ethosu.vela.errors import VelaError

    viol = {}
    counters = {"limit_probes": 0}
    acc = api.NpuAccelerator.Ethos_U55_128
    for n in ((1 << 24), (1 << 24) + 5):
        words = [0] * n
        counters["limit_probes"] += 1
        try:
            data = api.npu_create_driver_payload(words, acc)
            mech = "limit:oversize-stream-accepted"
            viol.setdefault(mech, {"mech": mech, "msg": "%d words (>= 2^24) accepted, payload %d bytes" % (n, len(data)), "witness": {"n": n}})
            del data
        except VelaError:
            pass
        except Exception as e:
            mech = "limit:oversize-stream-non-vela-exception:" + type(e).__name__
            viol.setdefault(mech, {"mech": mech, "msg": str(e)[:200], "witness": {"n": n}})
        del words
    if case["tier"] != "quick":
        n = (1 << 24) - 1
        words = [0x01020304] * n
        counters["limit_probes"] += 1
        try:
            data = api.npu_create_driver_payload(words, acc)
            hdr = struct.unpack("<8I", bytes(data[:32]))
            # header: COP1, config(3), NOPs, cmdstream tag at word 7 -> 8 words
            tag = hdr[7]
            nn = (tag >> 16) | (((tag >> 8) & 0xFF) << 16)
            if (tag & 0xFF) != 2 or nn != n or len(data) != 4 * (8 + n):
                mech = "frame:length-field"
                viol.setdefault(mech, {"mech": mech, "msg": "2^24-1 words: tag %#x declares %d, payload %d bytes" % (tag, nn, len(data)), "witness": {"n": n}})
        except Exception as e:
            mech = "limit:largest-legal-stream-rejected:" + type(e).__name__
            viol.setdefault(mech, {"mech": mech, "msg": str(e)[:200], "witness": {"n": n}})
    return {"violations": list(viol.values()), "counters": counters, "keys": ["limit"], "sample": None}


def run_compiled(case):
    from vv import cfggen, compile as vc, fbr, netgen, tflw

    rng = np.random.default_rng(np.random.SeedSequence([1717, case["seed"]]))
    viol = {}
    counters = {"compiled_streams": 0, "compiled_models": 0}
    keys = []
    sample = None
    for t in range(case["n"]):
        fam = ["exact-chain", "cpu-mix", "stripe-stress", "approx-tail"][t % 4]
        net = netgen.make(fam, case["seed"] * 10 + t)
        cfg = cfggen.rand_cfg(rng)
        d = os.path.join(case["sdir"], "k%d_%d" % (case["seed"], t))
        os.makedirs(d, exist_ok=True)
        mp = os.path.join(d, "n.tflite")
        open(mp, "wb").write(tflw.build(net))
        res = vc.run_inproc(mp, cfg, os.path.join(d, "o"))
        import ethosu.vela.tensor as tmod

        tmod.TensorAddressMap.clear_address_map()
        if res.ok():
            counters["compiled_models"] += 1
            m = fbr.RModel(open(res.out_path, "rb").read())
            sg = m.subgraphs[0]
            for op in sg.ops:
                if op.custom == "ethos-u":
                    T = sg.tensors[op.inputs[0]]
                    data = bytes(T.data) if T.data is not None else b""
                    counters["compiled_streams"] += 1
                    try:
                        if T.shape != [len(data)] or T.dtype != "uint8":
                            raise FrameError("tensor-shape", "command stream tensor shape %s dtype %s for %d bytes" % (T.shape, T.dtype, len(data)))
                        words = parse_payload(data, ACC_CLI[cfg["acc"]])
                        if not words or words[-1] != 0xFFFF0000:
                            raise FrameError("stream-does-not-end-with-stop", "last word %s" % (hex(words[-1]) if words else None))
                        keys.append("c:%s:%d" % (cfg["acc"], len(words)))
                        if sample is None:
                            sample = {"compiled": fam, "acc": cfg["acc"], "cmd_words": len(words)}
                    except FrameError as e:
                        mech = "compiled-frame:" + e.clause
                        viol.setdefault(mech, {"mech": mech, "msg": "%s on %s: %s" % (fam, cfg["acc"], e), "witness": {"family": fam, "nseed": case["seed"] * 10 + t, "cfg": cfg}})
        import shutil

        shutil.rmtree(d, ignore_errors=True)
    return {"violations": list(viol.values()), "counters": counters, "keys": keys, "sample": sample}


def run_case(case):
    return {"api": run_api, "limit": run_limit, "compiled": run_compiled, "genlimit": run_generator_limit}[case["part"]](case)


def summarise(agg, tier):
    q = tier == "quick"
    return {
        "thresholds": {"payloads": 1200 if q else 6000, "limit_probes": 2 if q else 3, "generator_limit_probes": 1 if q else 2, "compiled_streams": 30 if q else 400},
        "rule": "api: every length 0..600 (quick) / 0..4096 (thorough) + boundary lengths around 2^16/2^17 + random up to 2^18 (2^22 thorough), 4 word styles, 6 accelerators "
                "for short streams; limit: 2^24 and 2^24+5 words must raise VelaError (thorough: 2^24-1 must be framed); compiled: command-stream tensors of real output "
                "models. distinct = (length, accelerator) pairs",
        "assumptions": ["expected config/id words are frozen constants from the architecture description (not computed from the repository)"],
    }
