"""C19 - Lookup tables and compile-time fixed-point maths match their reference functions.

A. direct drive of every fp_math helper with Python ints and NumPy fixed-width scalars against exact gemmlowp ports;
B. 8-bit activation tables captured by a hook on lut.create_lut_tensor during real compilations of single-activation
   networks, compared with high-precision / reference-kernel oracles; LUT bytes are also read back from the flash tensor;
C. constant folding of QUANTIZE (int8->int8, int16->int16) through real compilations vs the reference requantise kernel.
"""
import decimal
import math
import os
import warnings
from fractions import Fraction

import numpy as np

from vv import refmath as R

PID = "C19"
LEVEL = "exploration"
FORK_PER_CASE = False
CASE_TIMEOUT = 300.0

I32 = (-(1 << 31), (1 << 31) - 1)
I16 = (-(1 << 15), (1 << 15) - 1)
I8 = (-128, 127)


def gen_cases(tier, seed):
    q = tier == "quick"
    cases = []
    nA = 16 if q else 64
    for i in range(nA):
        cases.append({"part": "A", "shard": i, "nshards": nA, "seed": seed, "n": 6000 if q else 60000, "tier": tier})
    nB = 48 if q else 480
    for i in range(nB):
        cases.append({"part": "B", "seed": seed * 7919 + i, "ntables": 12 if q else 40})
    nC = 16 if q else 64
    for i in range(nC):
        cases.append({"part": "C", "seed": seed * 104729 + i, "n": 6 if q else 16})
    nD = 8 if q else 32
    for i in range(nD):
        cases.append({"part": "D", "seed": seed * 611953 + i, "n": 40 if q else 200})
    return cases


# -------------------------------------------------------------------------------------------------- part A
def biased(rng, lo, hi, n):
    """boundary-biased integers in [lo, hi]"""
    out = []
    edges = [lo, lo + 1, hi, hi - 1, 0, 1, -1, 2, -2, lo // 2, hi // 2, lo // 2 - 1, hi // 2 + 1]
    for k in range(1, 31):
        for s in (-1, 1):
            for d in (-1, 0, 1):
                edges.append(s * (1 << k) + d)
    edges = [e for e in edges if lo <= e <= hi]
    for i in range(n):
        c = rng.integers(0, 3)
        if c == 0:
            out.append(int(edges[int(rng.integers(0, len(edges)))]))
        elif c == 1:
            out.append(int(rng.integers(lo, hi + 1)))
        else:
            mag = int(rng.integers(0, 32))
            v = int(rng.integers(-(1 << mag), (1 << mag) + 1))
            out.append(min(hi, max(lo, v)))
    return out


TYPES = [("int", int, None), ("int8", np.int8, I8), ("int16", np.int16, I16), ("int32", np.int32, I32), ("int64", np.int64, (-(1 << 63), (1 << 63) - 1))]


def call_checked(fn, args):
    """returns ('ok', int value) | ('exc', type name) | ('warn', text)"""
    with warnings.catch_warnings():
        warnings.simplefilter("error")
        try:
            with np.errstate(all="raise"):
                r = fn(*args)
            return "ok", int(r)
        except AssertionError:
            return "exc", "AssertionError"
        except Warning as w:
            return "warn", type(w).__name__
        except Exception as e:
            return "exc", type(e).__name__


def run_A(case):
    import ethosu.vela.fp_math as fp

    rng = np.random.default_rng(np.random.SeedSequence([19, case["seed"], case["shard"]]))
    n = case["n"]
    viol = {}
    counters = {"helper_evaluations": 0}
    sets = {"helpers": set(), "types": set()}
    samples = []

    def check(name, fn, ref, argsets, typed_positions):
        for args in argsets:
            want = ref(*args)
            for tname, tcon, trange in TYPES:
                if trange is not None and any(not (trange[0] <= args[p] <= trange[1]) for p in typed_positions):
                    continue
                cargs = [tcon(a) if (i in typed_positions and tcon is not int) else a for i, a in enumerate(args)]
                st, val = call_checked(fn, cargs)
                counters["helper_evaluations"] += 1
                counters["evals_" + tname] = counters.get("evals_" + tname, 0) + 1
                sets["helpers"].add(name)
                sets["types"].add(tname)
                if st != "ok" or val != want:
                    mech = "fp_math.%s:%s:%s" % (name, "python-int" if tname == "int" else "numpy-scalar", "wrong-value" if st == "ok" else val)
                    if mech not in viol:
                        viol[mech] = {"mech": mech, "msg": "%s(%s) with %s operands -> %s %s, reference %s" % (name, args, tname, st, val, want),
                                      "witness": {"fn": name, "args": [int(a) for a in args], "type": tname, "got": [st, val], "want": want}}
                elif len(samples) < 3:
                    samples.append({"fn": name, "args": [int(a) for a in args], "type": tname, "value": val})

    k = max(20, n // 40)
    a32 = biased(rng, *I32, k)
    b32 = biased(rng, *I32, k)
    a16 = biased(rng, *I16, k)
    b16 = biased(rng, *I16, k)
    check("saturating_rounding_mul32", fp.saturating_rounding_mul32, R.srdhm32, list(zip(a32, b32)), (0, 1))
    check("saturating_rounding_mul16", fp.saturating_rounding_mul16, R.srdhm16, list(zip(a16, b16)), (0, 1))
    check("saturating_mul16", fp.saturating_mul16, R.sdhm16, list(zip(a16, b16)), (0, 1))
    # exhaustive int8 pairs are split over shards
    sh, ns = case["shard"], case["nshards"]
    pairs8 = [(a, b) for a in range(-128, 128) for b in range(-128, 128) if ((a + 128) * 256 + (b + 128)) % ns == sh]
    if case["tier"] == "quick":
        pairs8 = pairs8[:: 4]
    check("saturating_rounding_mul16", fp.saturating_rounding_mul16, R.srdhm16, pairs8, (0, 1))
    check("saturating_mul16", fp.saturating_mul16, R.sdhm16, pairs8, (0, 1))
    offs = [int(o) for o in rng.integers(0, 32, k)]
    check("shift_left32", fp.shift_left32, lambda a, o: R.sat_left_shift(a, o, *I32), list(zip(a32, offs)), (0,))
    check("shift_left16", fp.shift_left16, lambda a, o: R.sat_left_shift(a, o, *I16), [(a, o % 16) for a, o in zip(a16, offs)], (0,))
    # single-argument helpers exhaustively over int16 x all shifts (split over shards; quick: strided)
    stride = 16 if case["tier"] == "quick" else 1
    xs16 = [x for x in range(I16[0], I16[1] + 1) if (x - I16[0]) % ns == sh][::stride]
    for e in range(0, 16):
        check("rounding_divide_by_pot", fp.rounding_divide_by_pot, R.rdbp, [(x, e) for x in xs16[:: 4 if e % 2 else 1]], (0,))
        check("shift_left16", fp.shift_left16, lambda a, o: R.sat_left_shift(a, o, *I16), [(x, e) for x in xs16[:: 4 if e % 2 == 0 else 1]], (0,))
    check("rounding_divide_by_pot", fp.rounding_divide_by_pot, R.rdbp, [(a, o % 31) for a, o in zip(a32, offs)], (0,))
    check("downscale_multiplier_int32_to_int16", fp.downscale_multiplier_int32_to_int16, R.downscale_i32_to_i16, [(a,) for a in a32 if a >= 0], (0,))

    def ref_srmbp(x, e):
        thr = (1 << (31 - e)) - 1
        return I32[1] if x > thr else I32[0] if x < -thr else R.sat_left_shift(x, e, *I32)

    check("saturating_rounding_multiply_by_pot", fp.saturating_rounding_multiply_by_pot, ref_srmbp, [(a, o % 31) for a, o in zip(a32, offs)], (0,))

    def ref_rescale(src, dst, x):
        e = src - dst
        return R.rdbp(x, -e) if e < 0 else ref_srmbp(x, e)

    check("rescale", fp.rescale, ref_rescale, [(int(rng.integers(0, 13)), int(rng.integers(0, 13)), a) for a in a32], (2,))
    negs = [-abs(a) for a in a32]
    check("exp_on_negative_values", fp.exp_on_negative_values, R.exp_on_negative_values, [(a,) for a in negs[: max(20, k // 4)]], (0,))
    # quantised multiply: x of every type; (scale, shift) as quantise_scale returns them
    ms = []
    for _ in range(k):
        m = int(rng.integers(1 << 30, 1 << 31))
        s = int(rng.integers(0, 63))
        ms.append((m, s))
    xs = biased(rng, -(1 << 24), 1 << 24, k)

    def ref_mbqm(x, m, s):
        return R.mbqm(x, m, 31 - s)

    argsets = []
    for x, (m, s) in zip(xs, ms):
        left = max(31 - s, 0)
        if abs(x) * (1 << left) <= I32[1]:
            argsets.append((x, m, s))
    check("multiply_by_quantized_multiplier", fp.multiply_by_quantized_multiplier, ref_mbqm, argsets, (0,))
    x8 = [(int(x), m, s) for x in range(-128, 128, 5) for (m, s) in ms[:6] if s >= 24]
    check("multiply_by_quantized_multiplier", fp.multiply_by_quantized_multiplier, ref_mbqm, x8, (0,))
    return {"violations": list(viol.values()), "counters": counters, "sets": {k2: sorted(v) for k2, v in sets.items()},
            "keys": ["A:%s" % h for h in sets["helpers"]], "sample": samples[0] if samples else None}


# -------------------------------------------------------------------------------------------------- part B
decimal.getcontext().prec = 60
D = decimal.Decimal


def dfrac(fr):
    return D(fr.numerator) / D(fr.denominator)


def hp_sigmoid(xfr):
    x = dfrac(xfr)
    return D(1) / (D(1) + (-x).exp())


def hp_tanh(xfr):
    x = dfrac(xfr)
    e2 = (2 * x).exp()
    return (e2 - 1) / (e2 + 1)


def round_half_away_dec(v):
    return int((v + D("0.5")).to_integral_value(rounding=decimal.ROUND_FLOOR)) if v >= 0 else -int((-v + D("0.5")).to_integral_value(rounding=decimal.ROUND_FLOOR))


def table_oracle_real(fn, s_in, zp_in, s_out, zp_out, lo, hi, band=D("1e-9")):
    """-> list of allowed value sets per code"""
    out = []
    fs_in, fs_out = Fraction(float(s_in)), Fraction(float(s_out))
    for x in range(lo, hi + 1):
        v = fn(fs_in * (x - zp_in)) / dfrac(fs_out) + zp_out
        r = round_half_away_dec(v)
        allowed = {min(hi, max(lo, r))}
        fracpart = abs(v - D(int(v.to_integral_value(rounding=decimal.ROUND_FLOOR))) - D("0.5"))
        if fracpart < band and fracpart != 0:
            allowed.add(min(hi, max(lo, r - 1)))
            allowed.add(min(hi, max(lo, r + 1)))
        out.append(allowed)
    return out


def lrelu_oracle(alpha, s_in, zp_in, s_out, zp_out, lo, hi):
    out = []
    a32 = np.float32(alpha)
    variants = []
    for idm, alm in ((float(np.float64(s_in) / np.float64(s_out)), float(np.float64(s_in) * np.float64(a32) / np.float64(s_out))),
                     (float(np.float32(s_in) / np.float32(s_out)), float(np.float32(np.float32(s_in) * a32) / np.float32(s_out)))):
        variants.append((R.quantize_multiplier(idm), R.quantize_multiplier(alm)))
    fs_in, fs_out, fa = Fraction(float(s_in)), Fraction(float(s_out)), Fraction(float(a32))
    for x in range(lo, hi + 1):
        allowed = set()
        iv = x - zp_in
        for (im, ie), (am, ae) in variants:
            if iv >= 0:
                allowed.add(zp_out + R.mbqm(iv, im, ie))
            else:
                allowed.add(zp_out + R.mbqm(iv, am, ae))
        real = fs_in * iv * (1 if iv >= 0 else fa) / fs_out
        allowed.add(zp_out + R.round_half_away(real))
        out.append({min(hi, max(lo, v)) for v in allowed})
    return out


def hswish_oracle(s_in, zp_in, s_out, zp_out, lo, hi):
    allowed = [set() for _ in range(lo, hi + 1)]
    for prec in ("f32", "f64"):
        if prec == "f32":
            hires = np.float32(1.0 / 128.0) * np.float32(s_in)
            om = float(np.float32(hires / np.float32(s_out)))
            rm = float(np.float32(hires / np.float32(3.0 / 32768.0)))
        else:
            hires = (1 / 128) * np.float64(s_in)
            om = float(hires / np.float64(s_out))
            rm = float(hires / np.float64(3 / 32768))
        om32, oexp = R.quantize_multiplier(om)
        rm32, rexp = R.quantize_multiplier(rm)
        om16 = R.downscale_i32_to_i16(om32)
        rm16 = R.downscale_i32_to_i16(rm32)
        for i, x in enumerate(range(lo, hi + 1)):
            iv = x - zp_in
            hi_v = iv * 128
            if not (R.I16_MIN <= hi_v <= R.I16_MAX):
                hi_v = ((hi_v + 32768) % 65536) - 32768  # int16 wrap as in C
            pre = R.srdhm16(hi_v, om16)
            rel = hi_v
            if rexp > 0:
                rel = R.sat_left_shift(rel, rexp - 1, R.I16_MIN, R.I16_MAX)
            rel = R.srdhm16(rel, rm16)
            if rexp > 0:
                rel = R.sat_left_shift(rel, 1, R.I16_MIN, R.I16_MAX)
            if rexp < 0:
                rel = R.rdbp(rel, -rexp)
            rel = (rel + (1 << 15)) >> 1
            o = R.sdhm16(rel, pre)
            o = R.rdbp(o, -oexp) if oexp <= 0 else o
            allowed[i].add(min(hi, max(lo, o + zp_out)))
    fs_in, fs_out = Fraction(float(s_in)), Fraction(float(s_out))
    for i, x in enumerate(range(lo, hi + 1)):
        xr = fs_in * (x - zp_in)
        relu6 = min(max(xr + 3, Fraction(0)), Fraction(6))
        real = xr * relu6 / 6 / fs_out
        allowed[i].add(min(hi, max(lo, zp_out + R.round_half_away(real))))
    return allowed


def run_B(case):
    import ethosu.vela.lut as lutmod
    from vv import compile as vc, fbr, netgen, tflw

    rng = np.random.default_rng(np.random.SeedSequence([1919, case["seed"]]))
    captured = []
    orig = lutmod.create_lut_tensor

    def hook(name, values, dtype):
        captured.append((name, [int(v) for v in values], str(dtype)))
        return orig(name, values, dtype)

    lutmod.create_lut_tensor = hook
    viol = {}
    counters = {"tables_checked": 0, "table_entries_checked": 0, "hook_evaluations": 0, "flash_readbacks": 0}
    sets = {"table_kinds": set()}
    sample = None
    keys = []
    try:
        for t in range(case["ntables"]):
            kind = ["logistic", "tanh", "leaky_relu", "hard_swish", "mul_max"][int(rng.integers(0, 5))]
            dtype = "int8" if kind in ("hard_swish",) or rng.integers(0, 3) else "uint8"
            g = netgen.G(rng, dtype)
            lo, hi = netgen.DT_RANGE[dtype]
            s_in = g.rscale(0.002, 0.3)
            zp_in = g.rzp()
            free_q = kind in ("logistic", "tanh") and t % 3 != 0
            if free_q and rng.integers(0, 2):
                s_in = g.rscale(0.035, 0.12)  # the inputs reach the saturated tails of the function
            x = g.input([1, 2, 2, 4] if kind != "mul_max" else [1, 16, 16, 1], s_in, zp_in)
            alpha = None
            if kind == "mul_max":
                # MAXIMUM(x, MUL(x, scalar constant)): rewritten to a LeakyReLU table; the oracle is the pair of reference kernels applied to all 256 codes
                y = g.mul_max(x, int(rng.integers(0, 3)))
            elif free_q:
                # any output quantisation (the statement quantifies over output scale and zero point): unsaturated ends, ties near the asymptotes
                mid = (lo + hi + 1) // 2
                y = g.unary(kind, x, float(np.float32(1.0 / rng.uniform(40.0, 127.9 if kind == "tanh" else 255.9))), int(mid + rng.integers(-8, 9)) if kind == "tanh" else int(lo + rng.integers(0, 12)), free_q=True)
            elif kind in ("logistic", "tanh"):
                y = g.unary(kind, x)
            elif kind == "leaky_relu":
                alpha = float(np.float32(rng.choice([0.01, 0.1, 0.2, 0.3, 0.5, float(rng.uniform(0.001, 0.99)), float(rng.uniform(1.0, 2.0)), -0.25])))
                y = g.unary(kind, x, g.rscale(0.002, 0.3), g.rzp(), alpha=alpha)
            else:
                y = g.unary(kind, x, g.rscale(0.002, 0.3), g.rzp())
            Y = g.T(y)
            s_out, zp_out = Y.scale[0], Y.zp[0]
            net = g.finish([y], "lut-single:" + kind, "approx", 1)
            d = os.path.join(case["sdir"], "b%d_%d" % (case["seed"], t))
            os.makedirs(d, exist_ok=True)
            mp = os.path.join(d, "n.tflite")
            open(mp, "wb").write(tflw.build(net))
            del captured[:]
            cfg = {"acc": ["ethos-u55-128", "ethos-u65-256", "ethos-u55-32"][t % 3], "mode": None, "optimise": "Performance", "allocator": "HillClimb"}
            res = vc.run_inproc(mp, cfg, os.path.join(d, "o"))
            # reset process-wide state between compilations of this worker (fresh ids are irrelevant for the table values)
            import ethosu.vela.tensor as tmod

            tmod.TensorAddressMap.clear_address_map()
            if not res.ok():
                counters["compile_not_ok"] = counters.get("compile_not_ok", 0) + 1
                if res.exc:
                    counters["compile_exception"] = counters.get("compile_exception", 0) + 1
                    sets.setdefault("compile_exc", set()).add(res.mech())
                    mech = "lut-table:%s:exception:%s" % (kind, res.mech())
                    viol.setdefault(mech, {"mech": mech, "msg": "building the table raised %s: %s" % (res.exc[0], res.exc[1]),
                                           "witness": {"kind": kind, "dtype": dtype, "s_in": s_in, "zp_in": zp_in, "s_out": s_out, "zp_out": zp_out, "alpha": alpha}})
                continue
            if not captured:
                counters["no_table_created"] = counters.get("no_table_created", 0) + 1
                sets.setdefault("no_table_kinds", set()).add("%s/%s alpha=%s" % (kind, dtype, alpha))
                continue
            counters["hook_evaluations"] += len(captured)
            name, values, dt = captured[-1]
            if len(values) != 256:
                continue
            if kind == "logistic":
                allowed = table_oracle_real(hp_sigmoid, s_in, zp_in, s_out, zp_out, lo, hi)
            elif kind == "tanh":
                allowed = table_oracle_real(hp_tanh, s_in, zp_in, s_out, zp_out, lo, hi)
            elif kind == "leaky_relu":
                allowed = lrelu_oracle(alpha, s_in, zp_in, s_out, zp_out, lo, hi)
            elif kind == "mul_max":
                from vv import tfref

                src = fbr.RModel(open(mp, "rb").read())
                it = tfref.Interp(src)
                it.vals[src.subgraphs[0].inputs[0]] = np.arange(lo, hi + 1, dtype=np.int64).reshape(1, 16, 16, 1)
                for op_ in src.subgraphs[0].ops:
                    it.exec_op(op_)
                want = np.asarray(it.vals[src.subgraphs[0].outputs[0]]).reshape(-1)
                allowed = [{int(v)} for v in want]
            else:
                allowed = hswish_oracle(s_in, zp_in, s_out, zp_out, lo, hi)
            bad = [(i + lo, values[i], sorted(allowed[i])) for i in range(256) if values[i] not in allowed[i]]
            counters["tables_checked"] += 1
            counters["table_entries_checked"] += 256
            sets["table_kinds"].add("%s/%s" % (kind, dtype))
            keys.append("B:%s:%s:%.6g:%d:%.6g:%d:%s" % (kind, dtype, s_in, zp_in, s_out, zp_out, alpha))
            if bad:
                mech = "lut-table:%s:entry-differs-from-reference" % kind
                viol.setdefault(mech, {"mech": mech, "msg": "%d of 256 entries differ, e.g. code %d: table %d, allowed %s" % (len(bad), bad[0][0], bad[0][1], bad[0][2]),
                                       "witness": {"kind": kind, "dtype": dtype, "s_in": s_in, "zp_in": zp_in, "s_out": s_out, "zp_out": zp_out, "alpha": alpha,
                                                   "bad": bad[:8], "table": values}})
            # read the table back from the flash tensor of the output file: bytes must be the hooked values
            m = fbr.RModel(open(res.out_path, "rb").read())
            found = False
            raw = bytes(np.asarray(values, dtype=np.int64).astype(np.int8 if dtype == "int8" else np.uint8).tobytes())
            for T in m.subgraphs[0].tensors:
                if T.data is not None and len(T.data) >= 256 and raw in bytes(T.data):
                    found = True
            counters["flash_readbacks"] += 1
            if not found:
                mech = "lut-table:%s:not-found-in-output-file" % kind
                viol.setdefault(mech, {"mech": mech, "msg": "the 256 table bytes created by the rewrite do not occur in any constant tensor of the output", "witness": {"kind": kind}})
            if sample is None:
                sample = {"kind": kind, "dtype": dtype, "s_in": s_in, "zp_in": zp_in, "s_out": s_out, "zp_out": zp_out, "alpha": alpha, "table_head": values[:8]}
            import shutil

            shutil.rmtree(d, ignore_errors=True)
        # ---- near-twin tables in one network (appended; own random stream): two LeakyReLUs on the same input whose slopes straddle a rounding boundary of one
        # input code, so that the two tables differ in one or two entries only (-k against -(k+1), k = 0, 1, 2, 5).  Each operator must find its own table
        # in the constants of the output file: whatever identifies equal tables for sharing must not identify these.
        r2 = np.random.default_rng(np.random.SeedSequence([191920, case["seed"]]))
        for u in range(max(2, case["ntables"] // 8)):
            g = netgen.G(r2, "int8")
            s_io = float(np.float32(r2.choice([1.0, 0.5, 0.05])))
            k_ = int(r2.choice([0, 1, 1, 2, 5]))
            q0 = int(r2.integers(20, 129))
            ac = (k_ + 0.5) / q0
            a1, a2 = float(np.float32(ac * (1 - 2e-3))), float(np.float32(ac * (1 + 2e-3)))
            x = g.input([1, 2, 2, 4], s_io, 0)
            y1 = g.unary("leaky_relu", x, s_io, 0, alpha=a1)
            y2 = g.unary("leaky_relu", x, s_io, 0, alpha=a2)
            net = g.finish([y1, y2], "lut-twins", "approx", 1)
            d = os.path.join(case["sdir"], "bt%d_%d" % (case["seed"], u))
            os.makedirs(d, exist_ok=True)
            mp = os.path.join(d, "n.tflite")
            open(mp, "wb").write(tflw.build(net))
            del captured[:]
            res = vc.run_inproc(mp, {"acc": ["ethos-u55-128", "ethos-u65-256", "ethos-u55-32"][u % 3], "mode": None, "optimise": "Performance", "allocator": "HillClimb"}, os.path.join(d, "o"))
            import ethosu.vela.tensor as tmod

            tmod.TensorAddressMap.clear_address_map()
            tabs = [list(v_) for (_, v_, _) in captured if len(v_) == 256]
            if res.ok() and len(tabs) >= 2:
                ta, tb = tabs[-2], tabs[-1]
                ndiff = sum(1 for a_, b_ in zip(ta, tb) if a_ != b_)
                counters["twin_table_networks"] = counters.get("twin_table_networks", 0) + 1
                if 0 < ndiff <= 4:
                    counters["twin_tables_differing_in_few_entries"] = counters.get("twin_tables_differing_in_few_entries", 0) + 1
                    m = fbr.RModel(open(res.out_path, "rb").read())
                    consts = [bytes(T.data) for T in m.subgraphs[0].tensors if T.data is not None and len(T.data) >= 256]
                    for which, tab in (("first", ta), ("second", tb)):
                        raw = np.asarray(tab, dtype=np.int64).astype(np.int8).tobytes()
                        if not any(raw in c_ for c_ in consts):
                            mech = "lut-table:leaky_relu:near-twin-table-not-found-in-output-file"
                            viol.setdefault(mech, {"mech": mech, "msg": "two LeakyReLU tables differing in %d entries (slopes %r / %r): the %s operator's table does not occur in the constants of the output" % (ndiff, a1, a2, which),
                                                   "witness": {"alphas": [a1, a2], "scale": s_io, "differing_entries": [(i - 128, ta[i], tb[i]) for i in range(256) if ta[i] != tb[i]]}})
            import shutil

            shutil.rmtree(d, ignore_errors=True)
    finally:
        lutmod.create_lut_tensor = orig
    return {"violations": list(viol.values()), "counters": counters, "sets": {k: sorted(v) for k, v in sets.items()}, "keys": keys, "sample": sample}


# -------------------------------------------------------------------------------------------------- part C
def run_C(case):
    from vv import compile as vc, fbr, netgen, tflw
    from vv.tflw import BO

    rng = np.random.default_rng(np.random.SeedSequence([191919, case["seed"]]))
    viol = {}
    counters = {"folded_constants_checked": 0, "fold_networks": 0}
    keys = []
    sample = None
    for t in range(case["n"]):
        dtype = "int8" if rng.integers(0, 3) else "int16"
        g = netgen.G(rng, dtype)
        lo, hi = netgen.DT_RANGE[dtype]
        # every int8 code (a sample of 2048 int16 codes) goes through the fold
        shp = [1, 4, 8, 8] if dtype == "int8" else [1, 8, 16, 16]
        s_k, zp_k = g.rscale(0.002, 0.2), g.rzp()
        if dtype == "int8":
            vals = rng.permutation(np.arange(lo, hi + 1)).reshape(shp)
        else:
            vals = rng.integers(lo, hi + 1, shp)
            vals.flat[0], vals.flat[1] = lo, hi
        s_q, zp_q = g.rscale(0.002, 0.2), g.rzp()
        if t % 2:
            # tie-prone pairs: the real ratio is close to (m + 1/2) / n, so that products land next to rounding boundaries, where the precision of the
            # ratio (float vs double) and the rounding rule decide the result
            if rng.integers(0, 2):
                a, b = [(0.15, 0.1), (0.25, 0.1), (0.05, 0.02), (0.007, 0.002), (0.3, 0.12), (0.0235, 0.047), (0.35, 0.1), (0.09, 0.04), (0.11, 0.04)][int(rng.integers(0, 9))]
                s_k, s_q = float(np.float32(a)), float(np.float32(b))
            else:
                m_, n_ = int(rng.integers(0, 6)), int(rng.choice([1, 2, 3, 4, 5, 8]))
                s_k = float(np.float32(s_q * (m_ + 0.5) / n_))
        k = g.const("kq", shp, dtype, vals, [s_k], [zp_k])
        q = g.act("q_out", shp, s_q, zp_q)
        g.net.add_o(BO.QUANTIZE, [k.name], [q.name], "QuantizeOptions", {}, 2)
        x = g.input(shp)
        y = g.eltwise("add", x, q.name)
        net = g.finish([y], "quantize-fold", "exact")
        d = os.path.join(case["sdir"], "c%d_%d" % (case["seed"], t))
        os.makedirs(d, exist_ok=True)
        mp = os.path.join(d, "n.tflite")
        open(mp, "wb").write(tflw.build(net))
        # observe the folded constant via a hook on the rewrite itself
        import ethosu.vela.tflite_graph_optimiser as go

        seen = []
        orig = go.optimise_quantize

        def hook(op, arch, nng, _orig=orig, _seen=seen):
            was_q = str(op.type).endswith("Quantize")
            r = _orig(op, arch, nng)
            if was_q and str(op.type).endswith("Const") and op.outputs and op.outputs[0].values is not None:
                _seen.append(np.array(op.outputs[0].values).astype(np.int64).ravel().tolist())
            return r

        go.optimise_quantize = hook
        # the rewrite list was bound at import; patch the list entries too
        patched = []
        for name in dir(go):
            obj = getattr(go, name)
            if isinstance(obj, list) and orig in obj:
                obj[obj.index(orig)] = hook
                patched.append(obj)
        try:
            cfg = {"acc": "ethos-u55-128", "mode": None, "optimise": "Performance", "allocator": "HillClimb"}
            res = vc.run_inproc(mp, cfg, os.path.join(d, "o"))
        finally:
            go.optimise_quantize = orig
            for obj in patched:
                obj[obj.index(hook)] = orig
        import ethosu.vela.tensor as tmod

        tmod.TensorAddressMap.clear_address_map()
        counters["fold_networks"] += 1
        if res.exc:
            mech = "quantize-fold:exception:" + res.mech()
            viol.setdefault(mech, {"mech": mech, "msg": "%s: %s" % (res.exc[0], res.exc[1]), "witness": {"dtype": dtype, "s_k": s_k, "zp_k": zp_k, "s_q": s_q, "zp_q": zp_q}})
            continue
        if not seen:
            counters["fold_not_observed"] = counters.get("fold_not_observed", 0) + 1
            continue
        m, e = R.quantize_multiplier(float(np.float64(np.float32(s_k)) / np.float64(np.float32(s_q))))
        want = [min(hi, max(lo, R.mbqm(int(v) - zp_k, m, e) + zp_q)) for v in vals.ravel()]
        got = seen[-1]
        counters["folded_constants_checked"] += len(want)
        keys.append("C:%s:%.6g:%d:%.6g:%d" % (dtype, s_k, zp_k, s_q, zp_q))
        if got != want:
            badi = [i for i in range(len(want)) if got[i] != want[i]]
            mech = "quantize-fold:value-differs-from-reference-kernel"
            viol.setdefault(mech, {"mech": mech, "msg": "%d of %d folded constants differ, e.g. input %d -> %d, reference %d" % (len(badi), len(want), int(vals.ravel()[badi[0]]), got[badi[0]], want[badi[0]]),
                                   "witness": {"dtype": dtype, "s_k": s_k, "zp_k": zp_k, "s_q": s_q, "zp_q": zp_q, "inputs": vals.ravel().tolist(), "got": got, "want": want}})
        if sample is None:
            sample = {"fold": dtype, "s_k": s_k, "zp_k": zp_k, "s_q": s_q, "zp_q": zp_q, "in": vals.ravel().tolist()[:6], "out": got[:6]}
        import shutil

        shutil.rmtree(d, ignore_errors=True)
    return {"violations": list(viol.values()), "counters": counters, "keys": keys, "sample": sample}


def run_D(case):
    """the 256-entry exponential table of the 8-bit softmax lowering (softmax.SoftMax.generate_exp_table) against the reference kernel's own arithmetic:
    entry x is exp_on_negative_values of the rescaled difference x - 255 when that difference is within the input radius (diff_min), 0 otherwise"""
    from ethosu.vela import softmax as sm

    rng = np.random.default_rng(np.random.SeedSequence([1900, case["seed"]]))
    viol = {}
    counters = {"softmax_tables_checked": 0, "softmax_table_entries": 0, "softmax_tables_with_radius_inside": 0}
    keys = []
    for t in range(case["n"]):
        beta = float(np.float32(rng.choice([1.0, 1.0, 0.5, 2.0, 0.25, float(rng.uniform(0.1, 4.0))])))
        k = rng.integers(0, 4)
        scale = np.float32([rng.uniform(0.0005, 0.05), rng.uniform(0.05, 0.6), 1.0 / 16 / beta, 2.0 ** -int(rng.integers(2, 9))][int(k)])
        if rng.integers(0, 2):
            scale = np.float32(scale * np.float32(1 + rng.choice([0.0, 1e-7, -1e-7, 1e-3])))
        try:
            got = [int(v) for v in sm.SoftMax.generate_exp_table(None, beta, scale)]
        except Exception as e:
            mech = "softmax-exp-table:exception:" + type(e).__name__
            viol.setdefault(mech, {"mech": mech, "msg": str(e)[:200], "witness": {"beta": beta, "scale": float(scale)}})
            continue
        m, ls, dmin = R.softmax_params(beta, float(scale))
        want = [R.exp_on_negative_values(R.srdhm32((x - 255) * (1 << ls), m), 5) if x - 255 >= dmin else 0 for x in range(256)]
        counters["softmax_tables_checked"] += 1
        counters["softmax_table_entries"] += 256
        counters["softmax_tables_with_radius_inside"] += int(dmin >= -255)
        keys.append("D:%d:%d" % (ls, int(dmin >= -255)))
        if got != want:
            bad = [i for i in range(256) if got[i] != want[i]]
            mech = "softmax-exp-table:entry-differs-from-reference" + (":at-input-radius" if bad == [255 + dmin] else "")
            viol.setdefault(mech, {"mech": mech, "msg": "beta %g, input scale %r (diff_min %d): %d entries differ, e.g. entry %d (difference %d): table %d, reference %d" % (
                beta, float(scale), dmin, len(bad), bad[0], bad[0] - 255, got[bad[0]], want[bad[0]]), "witness": {"beta": beta, "scale": float(scale), "bad": bad[:8]}})
    return {"violations": list(viol.values()), "counters": counters, "keys": sorted(set(keys)), "sample": {"part": "D", "tables": counters["softmax_tables_checked"]}}


def run_case(case):
    return {"A": run_A, "B": run_B, "C": run_C, "D": run_D}[case["part"]](case)


def summarise(agg, tier):
    q = tier == "quick"
    return {
        "thresholds": {"helper_evaluations": 100000 if q else 3000000, "tables_checked": 250 if q else 8000, "hook_evaluations": 250 if q else 8000,
                       "folded_constants_checked": 10000 if q else 200000, "softmax_tables_checked": 250 if q else 5000, "softmax_tables_with_radius_inside": 60 if q else 1200},
        "rule": "A: (helper, operand tuple, operand type) evaluations of every fp_math helper, boundary-biased + exhaustive int8 pairs / int16 x shifts, "
                "types python int and numpy int8/16/32/64; B: 8-bit tables captured from real compilations of single-activation networks with random "
                "quantisation; C: QUANTIZE constant folding observed at the rewrite. distinct = helpers (A) + distinct (kind,dtype,scales,zps,alpha) tables (B) + folds (C)",
        "assumptions": ["sigmoid/tanh oracle: correctly rounded real function at 60 decimal digits; both neighbours accepted only within 1e-9 LSB of a tie",
                        "leaky-relu / hard-swish oracle is set-valued: TFLite fixed-point reference kernel (float32- and float64-derived multipliers) or the correctly rounded real function",
                        "an exception or NumPy warning raised by a helper counts as a mismatch"],
    }
