"""C09 - Quantised multipliers reproduce the real scale to reference precision (reference-model monitor, exact arithmetic)."""
import math
import warnings
from fractions import Fraction

import numpy as np

from vv import refmath as R

PID = "C09"
LEVEL = "exploration"
CASE_TIMEOUT = 600.0

TWO31 = Fraction(1 << 31)


def gen_cases(tier, seed):
    q = tier == "quick"
    cases = []
    n = 16 if q else 64
    for i in range(n):
        cases.append({"part": "scale", "shard": i, "nshards": n, "seed": seed, "tier": tier})
    for i in range(n):
        cases.append({"part": "pool", "shard": i, "nshards": n, "seed": seed, "tier": tier})
    for i in range(n):
        cases.append({"part": "eltwise", "shard": i, "nshards": n, "seed": seed, "tier": tier})
    for i in range(n):
        cases.append({"part": "records", "seed": seed * 9001 + i, "n": 6 if q else 30})
    for i in range(n):
        cases.append({"part": "regs", "seed": seed * 9011 + i, "lists": 30 if q else 120})
    for i in range(4 if q else 32):
        cases.append({"part": "quantreg", "seed": seed * 9013 + i, "lists": 60 if q else 400})
    return cases


def as_types(v):
    """the three scalar types that reach these functions"""
    out = [("float", float(v)), ("float64", np.float64(v))]
    f32 = np.float32(v)
    if float(f32) == float(v):
        out.append(("float32", f32))
    return out


def checked(fn, *args):
    with warnings.catch_warnings():
        warnings.simplefilter("error")
        try:
            return "ok", fn(*args)
        except Exception as e:
            return "exc", type(e).__name__ + ": " + str(e)[:100]


def scale_values(rng, shard, nshards, tier):
    vals = []
    # all mantissas for selected exponents (strided in quick), split over shards
    exps = [-20, -9, -7, -1, 0, 5]
    stride = 128 if tier == "quick" else 1
    for e in exps:
        base = np.arange(shard, 1 << 23, nshards * stride, dtype=np.int64)
        bits = ((127 + e) << 23) | base
        vals.append(bits.astype(np.uint32).view(np.float32).astype(np.float64))
    # all exponents for sampled mantissas
    mant = rng.integers(0, 1 << 23, 24 if tier == "quick" else 256)
    ex = np.arange(-140, 41)
    for m in mant:
        v = np.ldexp(1.0 + m / float(1 << 23), ex)
        vals.append(v)
    # boundaries
    b = []
    for k in range(-70, 40):
        b += [2.0 ** k, 2.0 ** k * (1 - 2.0 ** -24), 2.0 ** k * (1 + 2.0 ** -23), 2.0 ** k * (1 - 2.0 ** -53), 2.0 ** k * (1 - 2.0 ** -33)]
    b += [5e-324, 1e-310, 1e-45, 1.17e-38, 3.4e38, 1e300, 2.0 ** -33, 2.0 ** -34, 2.0 ** 31, 2.0 ** 31 * (1 - 2.0 ** -53)]
    vals.append(np.array(b))
    # random doubles (not float32-representable)
    vals.append(np.exp(rng.uniform(np.log(1e-12), np.log(1e6), 2000 if tier == "quick" else 50000)))
    # exact ties of the multiplier rounding: doubles whose significand * 2^31 is m + 1/2 (lowest significand bit at 2^-32), for even and odd m - the reference
    # rounds them away from zero, round-half-even differs for even m; such scales arise as double-precision products of float32 scales, never from one float32 scale
    nt = 600 if tier == "quick" else 20000
    m = rng.integers(1 << 30, 1 << 31, nt)
    m[: nt // 2] &= ~np.int64(1)
    ties = np.ldexp((m.astype(np.float64) + 0.5) / float(1 << 31), rng.integers(-40, 20, nt))
    vals.append(ties)
    return np.concatenate(vals)


def run_scale(case):
    import ethosu.vela.scaling as sc

    rng = np.random.default_rng(np.random.SeedSequence([9, case["seed"], case["shard"]]))
    vals = scale_values(rng, case["shard"], case["nshards"], case["tier"])
    viol = {}
    counters = {"scale_evaluations": 0, "in_range": 0, "out_of_range": 0, "reduced_evaluations": 0}
    keys = set()
    sample = None

    def v(mech, msg, wit):
        viol.setdefault(mech, {"mech": mech, "msg": msg, "witness": wit})

    for s in vals:
        s = float(s)
        if not (s > 0) or math.isinf(s):
            continue
        fs = Fraction(s)
        fr, e = math.frexp(s)
        # hardware range: shift = 31 - e in [0, 63]
        in_range = 0 <= 31 - e <= 63
        mref, eref = R.quantize_multiplier(s)
        for tname, tv in as_types(s):
            st, r = checked(sc.quantise_scale, tv)
            counters["scale_evaluations"] += 1
            if st != "ok":
                v("quantise_scale:exception:" + tname, "quantise_scale(%r) raised %s" % (tv, r), {"scale": s, "type": tname})
                continue
            m, sh = int(r[0]), int(r[1])
            if in_range:
                counters["in_range"] += 1
                if not ((1 << 30) <= m <= (1 << 31)):
                    v("quantise_scale:multiplier-out-of-range", "scale %r -> multiplier %d not in [2^30, 2^31]" % (s, m), {"scale": s, "type": tname, "got": [m, sh]})
                    continue
                if not (0 <= sh <= 63):
                    v("quantise_scale:shift-out-of-range", "scale %r -> shift %d" % (s, sh), {"scale": s, "type": tname, "got": [m, sh]})
                    continue
                val = Fraction(m, 1 << sh)
                if abs(val - fs) / fs > Fraction(1, 1 << 31):
                    v("quantise_scale:relative-error-above-2^-31", "scale %r -> (%d, %d): relative error %.3g" % (s, m, sh, float(abs(val - fs) / fs)),
                      {"scale": s, "type": tname, "got": [m, sh]})
                if mref != 0:
                    ref = Fraction(mref) * Fraction(2) ** (eref - 31)
                    if val != ref:
                        v("quantise_scale:differs-from-tflite-QuantizeMultiplier", "scale %r -> (%d, %d) but reference (%d, exp %d)" % (s, m, sh, mref, eref),
                          {"scale": s, "type": tname, "got": [m, sh], "ref": [mref, eref]})
                keys.add("s:%d:%d" % (e, m & 0xFF))
            else:
                counters["out_of_range"] += 1
                if m != 0:
                    v("quantise_scale:out-of-range-scale-not-zeroed", "scale %r (shift %d outside [0,63]) -> (%d, %d), expected a zero multiplier" % (s, 31 - e, m, sh),
                      {"scale": s, "type": tname, "got": [m, sh]})
            # reduced form
            st, r = checked(sc.reduced_quantise_scale, tv)
            counters["reduced_evaluations"] += 1
            if st != "ok":
                v("reduced_quantise_scale:exception:" + tname, "reduced_quantise_scale(%r) raised %s" % (tv, r), {"scale": s, "type": tname})
                continue
            m16, sh16 = int(r[0]), int(r[1])
            red_in_range = 0 <= 31 - e - 16 <= 63 - 16 and 0 <= 31 - e <= 63
            if red_in_range:
                if not (0 < m16 <= 32767) or not (0 <= sh16 <= 63):
                    v("reduced_quantise_scale:field-out-of-range", "scale %r -> (%d, %d)" % (s, m16, sh16), {"scale": s, "got": [m16, sh16]})
                    continue
                val = Fraction(m16, 1 << sh16)
                if abs(val - fs) / fs > Fraction(1, 1 << 14):
                    v("reduced_quantise_scale:relative-error-above-2^-14", "scale %r -> (%d, %d): relative error %.3g" % (s, m16, sh16, float(abs(val - fs) / fs)),
                      {"scale": s, "got": [m16, sh16]})
            else:
                if m16 != 0 and not (0 <= sh16 <= 63):
                    v("reduced_quantise_scale:out-of-range-scale-not-zeroed", "scale %r -> (%d, %d): shift does not fit the 6-bit field and the multiplier is not zero" % (s, m16, sh16),
                      {"scale": s, "type": tname, "got": [m16, sh16]})
        if sample is None and in_range:
            sample = {"scale": s, "quantise_scale": [m, sh], "reference": [mref, eref]}
    return {"violations": list(viol.values()), "counters": counters, "keys": sorted(keys)[:4000], "sample": sample}


def tfl_avg(acc, n):
    """TFLite reference average: round half away from zero (== round-half-up for acc >= 0)"""
    return R.trunc_div(acc + n // 2, n) if acc > 0 else R.trunc_div(acc - n // 2, n)


def run_pool(case):
    import ethosu.vela.scaling as sc

    rng = np.random.default_rng(np.random.SeedSequence([99, case["seed"], case["shard"]]))
    viol = {}
    counters = {"pool_windows": 0, "pool_accumulators": 0}
    keys = set()
    sample = None
    sh, ns, tier = case["shard"], case["nshards"], case["tier"]
    ns_list = [n for n in range(1, 1025) if n % ns == sh]
    ns_list += [int(x) for x in rng.integers(1025, 65537, 16 if tier == "quick" else 200)]
    if sh == 0:
        ns_list += [65536, 65535, 4096, 256 * 256]
    for n in ns_list:
        for bits, rescale_bits in ((8, 0), (16, 0), (8, 2)):
            if n <= 1 and rescale_bits:
                continue
            st, r = checked(sc.quantise_pooling_scale, n, rescale_bits)
            if st != "ok":
                if n > 1 or "exc" in st:
                    viol.setdefault("quantise_pooling_scale:exception", {"mech": "quantise_pooling_scale:exception", "msg": "n=%d rescale_bits=%d raised %s" % (n, rescale_bits, r),
                                                                         "witness": {"n": n, "rescale_bits": rescale_bits}})
                continue
            scale, shift = int(r[0]), int(r[1])
            counters["pool_windows"] += 1
            if not (0 <= shift <= 63) or not (0 < scale < (1 << 32)):
                viol.setdefault("quantise_pooling_scale:field-out-of-range", {"mech": "quantise_pooling_scale:field-out-of-range", "msg": "n=%d -> (%d, %d)" % (n, scale, shift),
                                                                              "witness": {"n": n, "rescale_bits": rescale_bits, "got": [scale, shift]}})
                continue
            amax = n * ((1 << bits) - 1)
            # accumulators: all reachable for small windows, ties and neighbours beyond
            if (bits == 8 and n <= 64) or (bits == 16 and n <= 8):
                step = 1 if tier != "quick" or amax < 20000 else 7
                accs = range(-amax, amax + 1, step)
            else:
                qs = [int(x) for x in rng.integers(0, (1 << bits), 40)] + [0, 1, (1 << bits) - 2, (1 << bits) - 1]
                accs = []
                for qv in qs:
                    for d in (-1, 0, 1):
                        for half in (n // 2, (n + 1) // 2, 0):
                            a = qv * n + half + d
                            if abs(a) <= amax:
                                accs += [a, -a]
            # rescale_bits only narrows the multiplier (N = 31 - rescale_bits); the denoted value stays 1/n
            for acc in accs:
                got = (acc * scale + (1 << (shift - 1))) >> shift if shift > 0 else acc * scale
                want = tfl_avg(acc, n)
                counters["pool_accumulators"] += 1
                if got != want:
                    mech = "quantise_pooling_scale:scaled-accumulator-differs-from-rounded-division" + (":rescale" if rescale_bits else "") + (
                        ":int16-window-above-16384" if (bits == 16 and n > 16384) else "")
                    viol.setdefault(mech, {"mech": mech, "msg": "n=%d (scale %d, shift %d): acc %d -> %d, rounded division gives %d" % (n, scale, shift, acc, got, want),
                                           "witness": {"n": n, "bits": bits, "rescale_bits": rescale_bits, "acc": acc, "got": got, "want": want, "scale": scale, "shift": shift}})
                    break
            keys.add("p:%d:%d" % (n, bits))
            if sample is None:
                sample = {"window": n, "scale": scale, "shift": shift, "bits": bits}
    return {"violations": list(viol.values()), "counters": counters, "keys": sorted(keys), "sample": sample}


def qm_value(m, e):
    return Fraction(m) * Fraction(2) ** (e - 31)


def matches_ref(got, real):
    """got: Fraction denoted by Vela's pair; real: the double the reference quantises. Equal to TFLite's QuantizeMultiplier value, or -
    where TFLite flushes tiny multipliers to zero (exponent < -31) - within 2^-31 relative error of the real value."""
    m, e = R.quantize_multiplier(real)
    if m == 0 and real != 0:
        fr = Fraction(real)
        return abs(got - fr) / fr <= Fraction(1, 1 << 31) or got == 0
    return got == qm_value(m, e)


def run_eltwise(case):
    import ethosu.vela.scaling as sc

    rng = np.random.default_rng(np.random.SeedSequence([999, case["seed"], case["shard"]]))
    viol = {}
    counters = {"eltwise_triples": 0, "equal_scale_triples": 0}
    keys = set()
    sample = None
    n = 1500 if case["tier"] == "quick" else 20000

    def v(mech, msg, wit):
        viol.setdefault(mech, {"mech": mech, "msg": msg, "witness": wit})

    for i in range(n):
        s1 = np.float32(np.exp(rng.uniform(np.log(1e-4), np.log(2.0))))
        s2 = s1 if rng.integers(0, 5) == 0 else np.float32(np.exp(rng.uniform(np.log(1e-4), np.log(2.0))))
        so = np.float32(np.exp(rng.uniform(np.log(1e-4), np.log(2.0))))
        for tname in ("float32", "float64", "float"):
            conv = {"float32": np.float32, "float64": np.float64, "float": float}[tname]
            a1, a2, ao = conv(s1), conv(s2), conv(so)
            d1, d2, do = float(s1), float(s2), float(so)
            wit = {"s1": d1, "s2": d2, "s_out": do, "type": tname}
            counters["eltwise_triples"] += 1
            # ---- MUL: reference = QuantizeMultiplier(s1*s2/s_out) in double (TFLM) or float (TFLite) arithmetic
            st, r = checked(sc.elementwise_mul_scale, a1, a2, ao)
            if st != "ok":
                v("elementwise_mul_scale:exception", str(r), wit)
            else:
                refs = {qm_value(*R.quantize_multiplier(d1 * d2 / do)), qm_value(*R.quantize_multiplier(float(np.float32(np.float32(s1 * s2) / so))))}
                got = Fraction(int(r[0]), 1 << int(r[1]))
                if got not in refs:
                    v("elementwise_mul_scale:differs-from-reference:" + tname, "mul scales (%r,%r,%r) as %s -> (%d,%d); reference values %s" % (d1, d2, do, tname, r[0], r[1], [float(x) for x in refs]),
                      dict(wit, got=[int(r[0]), int(r[1])]))
            # ---- ADD/SUB advanced (8 and 16 bit)
            for bitdepth, L in ((8, 20), (16, 15)):
                st, r = checked(sc.advanced_elementwise_add_sub_scale, a1, a2, ao, bitdepth)
                if st != "ok":
                    v("advanced_elementwise_add_sub_scale:exception", str(r), wit)
                    continue
                in_scale, in_shift, out_scale, out_shift, op_to_scale = int(r[0]), int(r[1]), int(r[2]), int(r[3]), int(r[4])
                twice_max = 2.0 * max(d1, d2)
                ref_in = qm_value(*R.quantize_multiplier(min(d1, d2) / twice_max)) * (1 << L)
                ref_out = Fraction(twice_max / ((1 << L) * do))
                if Fraction(in_scale, 1 << in_shift) != ref_in:
                    v("advanced_add_sub:input-multiplier-differs-from-reference:" + tname,
                      "add/sub scales (%r,%r,%r) as %s, %d-bit: operand multiplier (%d,%d) = %.12g, reference %.12g" % (d1, d2, do, tname, bitdepth, in_scale, in_shift, in_scale / 2.0 ** in_shift, float(ref_in)),
                      dict(wit, bitdepth=bitdepth, got=[in_scale, in_shift]))
                if not matches_ref(Fraction(out_scale, 1 << out_shift), twice_max / ((1 << L) * do)):
                    v("advanced_add_sub:output-multiplier-differs-from-reference:" + tname,
                      "add/sub scales (%r,%r,%r) as %s, %d-bit: output multiplier (%d,%d), reference %.12g" % (d1, d2, do, tname, bitdepth, out_scale, out_shift, float(ref_out)),
                      dict(wit, bitdepth=bitdepth, got=[out_scale, out_shift]))
                want_op = 1 if d1 < d2 else 2
                if op_to_scale != want_op:
                    v("advanced_add_sub:wrong-operand-selected", "scales (%r,%r): operand %d scaled, expected %d (the smaller scale)" % (d1, d2, op_to_scale, want_op), wit)
            # ---- simplified (equal input scales; 16-bit operand scales)
            if d1 == d2:
                counters["equal_scale_triples"] += 1
                st, r = checked(sc.simplified_elementwise_add_sub_scale, a1, a2, ao)
                if st != "ok":
                    v("simplified_elementwise_add_sub_scale:exception", str(r), wit)
                else:
                    opa, opb, out_scale, out_shift = r
                    ref_out = Fraction(2.0 * d1 / (do * 65536.0))
                    if Fraction(float(opa)) != 32768 or Fraction(float(opb)) != 32768:
                        v("simplified_add_sub:operand-scales-not-2^15", "equal scales %r: opa=%r opb=%r" % (d1, opa, opb), wit)
                    if not matches_ref(Fraction(int(out_scale), 1 << int(out_shift)), 2.0 * d1 / (do * 65536.0)):
                        v("simplified_add_sub:output-multiplier-differs-from-reference:" + tname,
                          "equal scales %r, s_out %r as %s: (%d,%d) reference %.12g" % (d1, do, tname, out_scale, out_shift, float(ref_out)), dict(wit, got=[int(out_scale), int(out_shift)]))
        keys.add("e:%d" % i)
        if sample is None:
            sample = {"s1": float(s1), "s2": float(s2), "s_out": float(so)}
    return {"violations": list(viol.values()), "counters": counters, "keys": ["%d:%s" % (case["shard"], k) for k in sorted(keys)], "sample": sample}


def run_records(case):
    """packed scale records of real compilations: the (multiplier, shift) stored per output channel in the emitted weight/scale tensors must be the
    reference derivation for the operator that requested them (contract of checks.c08 around encode_weight_and_scale_tensor; one forked child per compile)"""
    import types

    from checks import c08
    from vv import cfggen, harness

    rng = np.random.default_rng(np.random.SeedSequence([909, case["seed"]]))
    shim = types.SimpleNamespace(run_case=c08.run_campaign)
    viol = {}
    counters = {"record_compilations": 0, "scale_records_checked": 0}
    fams = ["exact-chain", "exact-dag", "exact-chain", "buffer-stress", "shared-weights", "approx-tail", "stripe-stress", "cpu-mix"]
    for t in range(case["n"]):
        sub = {"family": fams[int(rng.integers(0, len(fams)))], "nseed": case["seed"] * 40 + t, "cfg": cfggen.rand_cfg(rng), "sdir": case["sdir"], "part": "campaign"}
        res = harness._run_forked(shim, sub, 300.0)
        if "counters" not in res:
            counters["record_compilations_lost"] = counters.get("record_compilations_lost", 0) + 1
            continue
        counters["record_compilations"] += 1
        counters["scale_records_checked"] += res["counters"].get("scale_records_checked", 0)
        for v in res.get("violations", []):
            if v["mech"].startswith("scale-record") or v["mech"].startswith("scale-tensor"):
                viol.setdefault("packed-record:" + v["mech"], dict(v, mech="packed-record:" + v["mech"]))
    return {"violations": list(viol.values()), "counters": counters, "keys": ["records"] if counters["scale_records_checked"] else [], "sample": {"part": "records", "records": counters["scale_records_checked"]}}


def run_regs(case):
    """OFM_SCALE / OPA_SCALE / OPB_SCALE as emitted: lists of ADD / SUB / MUL operations with identical, one-ulp-apart, nearly equal, power-of-two related and
    tiny scales go through the public command stream generator; the decoded registers are compared with the reference derivation (expected-register model of
    checks.c06 / vv.expect); only scaling differences are counted here"""
    from checks import c06

    res = c06.run_direct(dict(case, focus="eltwise-scales"))
    viol = [dict(v, mech="registers:" + v["mech"]) for v in res["violations"] if "scale" in v["mech"] or "op_to_scale" in v["mech"]]
    c = res["counters"]
    return {"violations": viol, "counters": {"register_ops_decoded": c.get("ops_decoded", 0), "register_lists": c.get("lists", 0)}, "keys": ["regs"] if c.get("ops_decoded") else [],
            "sample": {"part": "regs", "ops": c.get("ops_decoded", 0)}}


def run_quantreg(case):
    """OFM_SCALE of a re-quantising operation (QUANTIZE lowered to a 1x1 average pool with fused_quantize): pooling operations with float32 / float scales go
    through the public command stream generator; the decoded (multiplier, shift) must denote QuantizeMultiplier(double(ifm_scale) / double(ofm_scale)),
    the TFLite reference derivation for Requantize, within 2^-31 of the real ratio"""
    from ethosu.vela import api

    from vv import decode, isa, opgen

    rng = np.random.default_rng(np.random.SeedSequence([909, case["seed"]]))
    viol = {}
    counters = {"requant_registers_checked": 0, "requant_inexact_float32_ratios": 0}
    keys = set()
    sample = None
    accs = list(isa.ACCEL)
    dts = [(api.NpuDataType.INT8, api.NpuDataType.INT8), (api.NpuDataType.INT8, api.NpuDataType.UINT8), (api.NpuDataType.UINT8, api.NpuDataType.INT8),
           (api.NpuDataType.INT16, api.NpuDataType.INT16), (api.NpuDataType.INT16, api.NpuDataType.INT8), (api.NpuDataType.INT8, api.NpuDataType.INT16)]

    def fm(dt, addr, scale, zp, h, w, c):
        f = api.NpuFeatureMap()
        f.data_type = dt
        f.shape = api.NpuShape3D(height=h, width=w, depth=c)
        f.tiles = api.NpuTileBox(width_0=w, height_0=h, height_1=h, addresses=[addr, 0, 0, 0])
        f.region = 1
        f.layout = api.NpuLayout.NHWC
        f.quantization = api.NpuQuantization(scale_f32=scale, zero_point=zp)
        return f

    for li in range(case["lists"]):
        acc = accs[int(rng.integers(0, len(accs)))]
        ops, exp = [], []
        for _ in range(int(rng.integers(1, 9))):
            idt, odt = dts[int(rng.integers(0, len(dts)))]
            k = int(rng.integers(0, 5))
            if k == 0:
                a, b = float(rng.uniform(0.001, 0.5)), float(rng.uniform(0.001, 0.5))
            elif k == 1:
                a = float(np.exp(rng.uniform(np.log(1e-4), np.log(4.0))))
                b = a * float(rng.choice([0.5, 2.0, 1.0, 3.0, 1 / 3.0, 255.0 / 256.0]))
            elif k == 2:
                a, b = 1 / 255.0, float(rng.uniform(0.01, 0.05))
            elif k == 3:
                a = float(rng.uniform(0.001, 0.5))
                b = float(np.nextafter(np.float32(a), np.float32(1.0)))
            else:
                a, b = float(rng.choice([0.0123, 0.05, 0.1, 0.007843])), float(rng.choice([0.0457, 0.013, 0.3, 0.02]))
            ty = int(rng.integers(0, 3))
            conv = [np.float32, float, np.float64][ty]
            a32, b32 = np.float32(a), np.float32(b)
            sa, sb = (conv(a32), conv(b32))  # the values are float32-representable whatever type carries them (scales come from the flatbuffer's float fields)
            h, w, c = int(rng.choice([1, 4, 8])), int(rng.choice([1, 4, 8])), int(rng.choice([4, 16, 24]))
            op = api.NpuPoolingOperation(api.NpuPoolingOp.AVERAGE)
            isz = 2 if idt == api.NpuDataType.INT16 else 1
            op.ifm = fm(idt, 0, sa, int(rng.integers(-5, 6)) if isz == 1 and idt != api.NpuDataType.UINT8 else (int(rng.integers(0, 200)) if isz == 1 else 0), h, w, c)
            op.ofm = fm(odt, 0x10000, sb, 0 if odt == api.NpuDataType.INT16 else int(rng.integers(0, 100)) - (50 if odt == api.NpuDataType.INT8 else 0), h, w, c)
            op.kernel = api.NpuKernel(1, 1)
            op.padding = api.NpuPadding(top=0, left=0, bottom=0, right=0)
            op.fused_quantize = True
            op.rounding_mode = api.NpuRoundingMode.TFL
            cfgs = api.npu_find_block_configs(op, api.NpuAccelerator[opgen.ACC_API[acc]])
            if not cfgs:
                continue
            op.block_config = cfgs[int(rng.integers(0, len(cfgs)))]
            ops.append(op)
            exp.append((float(a32), float(b32), ["float32", "float", "float64"][ty]))
        if not ops:
            continue
        try:
            words = api.npu_generate_register_command_stream(ops, api.NpuAccelerator[opgen.ACC_API[acc]])
        except Exception as e:
            mech = "requant-register:generator-rejects-legal-operation:" + type(e).__name__
            viol.setdefault(mech, {"mech": mech, "msg": str(getattr(e, "data", e))[:200], "witness": {"acc": acc, "scales": exp}})
            continue
        events, info = decode.decode_stream(words)
        opev = [ev for ev in events if ev.kind == "op"]
        if len(opev) != len(ops):
            continue
        for ev, (a, b, ty) in zip(opev, exp):
            F = decode.Fields(ev.op)
            counters["requant_registers_checked"] += 1
            real = a / b  # double division of the two float32 values: TFLite's effective_scale
            if float(np.float32(a) / np.float32(b)) != real:
                counters["requant_inexact_float32_ratios"] += 1
            got = Fraction(F.ofm_scale) / (Fraction(2) ** F.ofm_shift)
            keys.add("rq:%s:%d" % (ty, F.ofm_shift))
            exact = Fraction(a) / Fraction(b)
            if not matches_ref(got, real):
                mech = "requant-register:differs-from-reference-derivation:" + ty
                viol.setdefault(mech, {"mech": mech, "msg": "ifm scale %r / ofm scale %r (%s): OFM_SCALE (%d, %d) denotes %.12g, reference QuantizeMultiplier(%.17g) = %s" % (
                    a, b, ty, F.ofm_scale, F.ofm_shift, float(got), real, R.quantize_multiplier(real)), "witness": {"acc": acc, "ifm_scale": a, "ofm_scale": b, "type": ty}})
            elif abs(got - exact) / exact > Fraction(1, 1 << 30):
                mech = "requant-register:relative-error-above-bound:" + ty
                viol.setdefault(mech, {"mech": mech, "msg": "ifm scale %r / ofm scale %r: relative error %.3g" % (a, b, float(abs(got - exact) / exact)), "witness": {"acc": acc, "ifm_scale": a, "ofm_scale": b}})
            if sample is None:
                sample = {"part": "quantreg", "ifm_scale": a, "ofm_scale": b, "ofm_scale_register": (F.ofm_scale, F.ofm_shift)}
    return {"violations": list(viol.values()), "counters": counters, "keys": sorted(keys), "sample": sample}


def run_case(case):
    return {"scale": run_scale, "pool": run_pool, "eltwise": run_eltwise, "records": run_records, "regs": run_regs, "quantreg": run_quantreg}[case["part"]](case)


def summarise(agg, tier):
    q = tier == "quick"
    return {
        "thresholds": {"scale_evaluations": 100000 if q else 10000000, "pool_windows": 2000 if q else 3000, "pool_accumulators": 1000000 if q else 5000000,
                       "eltwise_triples": 50000 if q else 1000000, "equal_scale_triples": 5000 if q else 100000,
                       "record_compilations": 60 if q else 1200, "scale_records_checked": 10000 if q else 250000,
                       "register_ops_decoded": 3000 if q else 50000, "requant_registers_checked": 500 if q else 30000, "requant_inexact_float32_ratios": 200 if q else 10000},
        "rule": "scale part: float32 mantissa sweep for 6 exponents (strided in quick), 181 exponents x sampled mantissas, boundaries, random doubles, each as "
                "python float / np.float64 / np.float32; pool part: every window 1..1024 + sampled up to 65536, all reachable accumulators for small windows, ties beyond; "
                "eltwise part: random (s1,s2,s_out) triples incl. equal scales, 8- and 16-bit; records part: packed 10-byte scale records of real compilations against "
                "the reference derivation for the requesting operator; quantreg part: OFM_SCALE of re-quantising 1x1 average pools (fused QUANTIZE) emitted by the public generator for float32 / float / float64 scale pairs against QuantizeMultiplier(double(ifm)/double(ofm)). distinct = (exponent, low mantissa byte) classes + windows + triples",
        "assumptions": ["oracle = exact rational arithmetic + own port of TFLite QuantizeMultiplier; equality is on the denoted value m*2^-shift",
                        "where TFLite flushes (exponent < -31) only the 2^-31 error bound is required",
                        "average-pool oracle is the TFLite reference rounding (half away from zero), identical to round-half-up for non-negative accumulators (DESIGN 8)",
                        "MUL reference is set-valued over TFLite (float) and TFLM (double) arithmetic"],
    }
