"""C14 - Compilation is deterministic and independent of process history (history differential).

Every history (a sequence of compilations in ONE fresh process, possibly through different entry points) is compared step by step with baselines
obtained from fresh processes (PYTHONHASHSEED=0): output bytes and summary CSV rows must be identical, and a step must never fail because of an earlier one.
Hash seeds are swept for single compilations. Adversarial 'twins' share value-keyed state (identical LUT contents, identical constants, same names).
"""
import csv
import hashlib
import io
import json
import os
import subprocess
import sys

import numpy as np

from vv import cfggen, netgen, repo, tflw
from vv.tflw import BO

PID = "C14"
LEVEL = "exploration"
CASE_TIMEOUT = 900.0

CONVERT_CFG = {"acc": "ethos-u65-256", "mode": None, "optimise": "Performance", "allocator": "HillClimb", "cache": None, "align": 16, "blockdep": 3, "hc_iters": 99999}


def twin_net(seed, variant):
    """two different networks (variant 0/1) that share value-keyed state: same LUT contents (sigmoid on identical quantisation), identical bias values,
    identical tensor names with different shapes"""
    r = netgen.rng_for("twin", seed)
    g = netgen.G(r, "int8")
    c = int(r.choice([8, 16]))
    h, w = (8, 8) if variant == 0 else (6, 10)
    x = g.input([1, h, w, c], 0.05, 3, name="in_1")
    k = 3 if variant == 0 else 1
    acts = ["logistic", "tanh"] if variant == 0 else ["tanh", "logistic"]  # same two tables, created in opposite order
    extra = []
    if seed % 3 == 0:
        # a PAD over height, width and channels: the optimiser splits it and edits the paddings constant
        x = g.pad(x, [[0, 0], [1, 1], [1, 0], [0, int(r.choice([1, 3, 8]))]])
    elif seed % 3 == 1:
        # a side branch padding the batch and the channel dimension together (split into two PADs by the optimiser)
        extra.append(g.pad(x, [[int(r.choice([0, 1])), 1], [0, int(r.choice([0, 1]))], [0, 0], [int(r.choice([0, 2])), int(r.choice([1, 3]))]]))
    y = g.conv(x, c, k, 1, netgen.PAD_SAME, 0, oscale=0.02, ozp=-7, wdist=variant)
    z = g.unary(acts[0], y)
    y2 = g.conv(z, c, 1, 1, netgen.PAD_SAME, 0, oscale=0.02, ozp=-7)
    z2 = g.unary(acts[1], y2)
    return g.finish([z2] + extra, "twin%d" % variant, "approx", None)


def gen_cases(tier, seed):
    q = tier == "quick"
    rng = np.random.default_rng(np.random.SeedSequence([14, seed]))
    cases = []
    fams = ["exact-chain", "lut-stress", "cpu-mix", "approx-tail", "buffer-stress", "alias-stress", "stripe-stress", "exact-dag"]
    n_hist = 64 if q else 800
    for i in range(n_hist):
        kind = ["AA", "AB", "twins", "entry-mix", "acc-mix", "long", "twins-entry-mix", "entry-mix", "greedy-ties", "limits", "bytes-repeat"][i % 11]
        cases.append({"part": "history", "kind": kind, "seed": int(seed * 7919 + i), "fam": fams[i % len(fams)], "fam2": fams[(i * 3 + 1) % len(fams)]})
    n_hs = 16 if q else 64
    for i in range(n_hs):
        cases.append({"part": "hashseed", "seed": int(seed * 7927 + i), "fam": fams[i % len(fams)], "hashseeds": [1 + i, 17 + i * 3] if q else [1 + i, 101 + i, 1001 + i, 4242 + i]})
    return cases


def write_model(d, name, net):
    p = os.path.join(d, name + ".tflite")
    with open(p, "wb") as f:
        f.write(tflw.build(net))
    return p


def run_history(d, tag, steps, hashseed="0", between=None):
    spec = os.path.join(d, tag + "_spec.json")
    out = os.path.join(d, tag + "_res.json")
    json.dump({"steps": steps, "between": between}, open(spec, "w"))
    p = subprocess.run([sys.executable, os.path.join(repo.VERIF, "vv", "history_runner.py"), spec, out], cwd=d, env=repo.child_env({"PYTHONHASHSEED": str(hashseed)}),
                       capture_output=True, text=True, timeout=600)
    if not os.path.exists(out):
        return None, p.stderr[-800:]
    return json.load(open(out)), p.stderr[-300:]


def digest(path):
    try:
        return hashlib.sha256(open(path, "rb").read()).hexdigest()
    except OSError:
        return None


def csv_row(path):
    try:
        rows = list(csv.DictReader(io.StringIO(open(path).read())))
        return {k: v for k, v in rows[0].items() if k not in ("experiment",)} if rows else None
    except Exception:
        return None


def step(entry, model, cfg, outdir, tag):
    return {"entry": entry, "model": model, "argv": cfggen.argv(cfg, model, outdir) if entry == "main" else [], "outdir": outdir, "tag": tag}


def run_case(case):
    d = os.path.join(case["sdir"], "%s%d" % ("h" if case["part"] == "history" else "s", case["seed"]))  # history and hash-seed cases may share a seed value: never a directory
    os.makedirs(d, exist_ok=True)
    rng = np.random.default_rng(np.random.SeedSequence([1414, case["seed"]]))
    viol = {}
    counters = {"histories": 0, "history_steps": 0, "baselines": 0, "twins": 0, "hash_seed_runs": 0, "entry_point_mixes": 0, "byte_comparisons": 0, "csv_comparisons": 0}
    sets = {"hash_seeds": set(), "history_kinds": set()}
    inconc = [None]

    def v(mech, msg, wit):
        viol.setdefault(mech, {"mech": mech, "msg": msg, "witness": wit})

    def baseline(model, cfg, entry, tag):
        """fresh process, hash seed 0"""
        res, err = run_history(d, "base_" + tag, [step(entry, model, cfg, os.path.join(d, "base_" + tag), tag)])
        counters["baselines"] += 1
        if not res:
            # the runner itself (not a compilation step, whose exceptions it records) did not finish: no verdict can be built on that
            counters["baseline_runner_died"] = counters.get("baseline_runner_died", 0) + 1
            return {"ok": None, "error": "runner died: " + err}
        return res[0]

    if case["part"] == "hashseed":
        net = netgen.make(case["fam"], case["seed"])
        model = write_model(d, "m", net)
        cfg = cfggen.rand_cfg(rng)
        b = baseline(model, cfg, "main", "hs0")
        if b["ok"]:
            for hs in case["hashseeds"]:
                res, err = run_history(d, "hs%d" % hs, [step("main", model, cfg, os.path.join(d, "hs%d" % hs), "hs")], hashseed=hs)
                counters["hash_seed_runs"] += 1
                sets["hash_seeds"].add(str(hs))
                wit = {"family": case["fam"], "nseed": case["seed"], "cfg": cfg, "hashseed": hs}
                if not res:
                    res, err = run_history(d, "hs%dr" % hs, [step("main", model, cfg, os.path.join(d, "hs%dr" % hs), "hs")], hashseed=hs)
                if not res:
                    # the runner process itself ended without a result (killed, out of memory, interpreter crash) twice: no step recorded an outcome, so there
                    # is nothing to compare - not a verdict about the compiler (a crash of a single compilation is C13's business)
                    counters["hash_seed_runner_died"] = counters.get("hash_seed_runner_died", 0) + 1
                    inconc[0] = "hash-seed runner died twice without a result"
                    continue
                if not res[0]["ok"]:
                    v("fails-under-other-hash-seed", "compiles with PYTHONHASHSEED=0 but not with %d: %s" % (hs, res and res[0].get("error")), wit)
                    continue
                counters["byte_comparisons"] += 1
                if digest(res[0]["out_path"]) != digest(b["out_path"]):
                    v("output-depends-on-hash-seed", "output bytes differ between PYTHONHASHSEED=0 and %d" % hs, wit)
                counters["csv_comparisons"] += 1
                if csv_row(res[0]["csv_path"]) != csv_row(b["csv_path"]):
                    v("summary-depends-on-hash-seed", "summary CSV differs between PYTHONHASHSEED=0 and %d" % hs, wit)
        key = "hs|%s" % case["fam"]
    else:
        kind = case["kind"]
        sets["history_kinds"].add(kind)
        if kind == "greedy-ties":
            # several arena tensors with identical lifetime and size (equally shaped inputs of one operator): any order the allocator derives from object
            # identities instead of a total order shows up as different addresses between repeats
            r2 = netgen.rng_for("ties", case["seed"])
            g2 = netgen.G(r2, "int8")
            shp = [1, int(r2.choice([4, 8])), int(r2.choice([4, 8])), int(r2.choice([8, 16]))]
            ins = [g2.input(shp) for _ in range(int(r2.integers(2, 5)))]
            acc_ = ins[0]
            for x_ in ins[1:]:
                acc_ = g2.eltwise(str(r2.choice(["add", "mul", "sub"])), acc_, x_)
            A = g2.finish([g2.conv(acc_, 8, 1, 1, netgen.PAD_SAME, 0)], "ties", "exact")
            B = netgen.make(case["fam2"], case["seed"] + 1)
        elif kind == "limits":
            # a very deep chain needs more interpreter recursion than the default --recursion-limit allows; whether it compiles must not depend on what ran before
            r2 = netgen.rng_for("deep", case["seed"])
            g2 = netgen.G(r2, "int8")
            x_ = g2.input([1, 1, 1, 8], scale=0.05, zp=0)
            for _ in range(int(r2.choice([1500, 1700]))):
                x_ = g2.eltwise("add", x_, g2.const_act([1, 1, 1, 8]), oscale=0.05, ozp=0)
            B = g2.finish([x_], "deep", "exact")
            A = netgen.make("tiny", case["seed"])
        elif kind in ("twins", "twins-entry-mix"):
            A, B = twin_net(case["seed"], 0), twin_net(case["seed"], 1)
            counters["twins"] += 1
        else:
            A, B = netgen.make(case["fam"], case["seed"]), netgen.make(case["fam2"], case["seed"] + 1)
        if kind == "bytes-repeat" or (kind == "entry-mix" and rng.integers(0, 2) == 0):
            # weights the compiler generates itself (the all-ones filter of a lowered MEAN) are keyed by value in the process-wide cache of encoded weights:
            # the same network again, through another entry point, must not find a stale entry
            A = netgen.make("approx-tail", int(case["seed"]) * len(netgen.APPROX_TAILS) + netgen.APPROX_TAILS.index("mean"))
            counters["generated_weight_histories"] = counters.get("generated_weight_histories", 0) + 1
        if kind in ("entry-mix", "twins-entry-mix", "AB") and rng.integers(0, 2):
            # models whose subgraph carries no name (an optional field): whatever stands in for it must not depend on the entry point or the file name
            A.sg_name = None
            if rng.integers(0, 2):
                B.sg_name = None
            counters["unnamed_subgraph_histories"] = counters.get("unnamed_subgraph_histories", 0) + 1
        if case["seed"] % 3 == 0 and kind not in ("limits",) and A.ops:
            # an interface list that names the same tensor twice (legal, the compiler only warns) next to other entries: the order of the entries in the output
            # model must not come from anything that depends on the history of the process (object identities)
            extra_out = [t for o_ in A.ops for t in o_.outputs if t not in A.outputs][:2]
            outs_ = list(A.outputs) + extra_out
            A.outputs = outs_[:1] + outs_[1:2] + outs_[:1] + outs_[1:] + outs_[-1:]
            counters["repeated_interface_entries"] = counters.get("repeated_interface_entries", 0) + 1
        if case["seed"] % 4 == 1 and kind not in ("limits",):
            # tensor names are labels, not keys: several tensors of one model may carry the same name (here: every feature map that is not an interface tensor
            # of model A is called "x").  Whatever order the writer gives equally named tensors must not depend on the history of the process.
            if kind in ("AA", "AB", "entry-mix", "long", "acc-mix"):
                A = netgen.make("cpu-mix", case["seed"])  # several feature maps stay visible in the output model (CPU / Ethos-U boundaries)
            iface = set(A.inputs) | set(A.outputs)
            for t_ in A.tensors:
                if t_.data is None and t_.name not in iface:
                    t_.wire_name = "x"
            counters["equally_named_tensors"] = counters.get("equally_named_tensors", 0) + 1
        ma, mb = write_model(d, "a", A), write_model(d, "b", B)
        cfgA = cfggen.rand_cfg(rng)
        cfgB = dict(cfgA) if kind != "acc-mix" else cfggen.rand_cfg(rng)
        if kind == "greedy-ties":
            cfgA = dict(cfgA, allocator="Greedy")
            seq = [("main", ma, cfgA)] * 3 + [("main", mb, cfgB), ("main", ma, cfgA), ("main", ma, cfgA)]
        elif kind == "limits":
            base_cfg = {"acc": cfgA["acc"], "mode": None, "optimise": "Performance", "allocator": "HillClimb"}
            seq = [("main", ma, dict(base_cfg, flags=["--recursion-limit", "20000"])), ("main", mb, base_cfg), ("main", ma, base_cfg), ("main", mb, base_cfg)]
            counters["limit_histories"] = counters.get("limit_histories", 0) + 1
        elif kind == "AA":
            seq = [("main", ma, cfgA), ("main", ma, cfgA)]
        elif kind in ("AB", "twins", "acc-mix"):
            seq = [("main", ma, cfgA), ("main", mb, cfgB)]
            if kind == "twins" and rng.integers(0, 2):
                seq.append(("main", ma, cfgA))
        elif kind == "bytes-repeat":
            # the buffer entry point again and again, with nothing in between that goes through the file reader
            counters["entry_point_mixes"] += 1
            seq = [(str(rng.choice(["convert_bytes", "main", "convert"])), ma, CONVERT_CFG), ("convert_bytes", ma, CONVERT_CFG), ("convert_bytes_same_buffer", ma, CONVERT_CFG), ("convert_bytes", mb, CONVERT_CFG),
                   ("convert_bytes_memoryview", ma, CONVERT_CFG)]
        elif kind in ("entry-mix", "twins-entry-mix"):
            counters["entry_point_mixes"] += 1
            order = [("convert", ma, CONVERT_CFG), ("main", mb, CONVERT_CFG), ("convert_bytes", ma, CONVERT_CFG), ("main", ma, CONVERT_CFG), ("convert_bytes", mb, CONVERT_CFG),
                     ("convert_bytes_same_buffer", ma, CONVERT_CFG), ("convert_bytes_same_buffer", ma, CONVERT_CFG), ("convert_bytes_memoryview", mb, CONVERT_CFG), ("convert", mb, CONVERT_CFG)]
            seq = [order[int(i)] for i in rng.permutation(len(order))[: int(rng.integers(3, 7))]]
        else:
            ms = [ma, mb]
            seq = [("main", ms[int(rng.integers(0, 2))], cfgA if rng.integers(0, 2) else cfgB) for _ in range(int(rng.integers(4, 7)))]
        steps = [step(e, m, c, os.path.join(d, "s%d" % i), "s%d" % i) for i, (e, m, c) in enumerate(seq)]
        res, err = run_history(d, "hist", steps, between="random" if rng.integers(0, 2) else None)
        counters["histories"] += 1
        wit = {"kind": kind, "fam": case["fam"], "fam2": case["fam2"], "seed": case["seed"], "cfgA": cfgA, "cfgB": cfgB, "sequence": [(e, os.path.basename(m)) for e, m, c in seq]}
        if res is None:
            res, err = run_history(d, "hist2", steps, between=None)
        if res is None:
            # see above: a runner that ends without a result twice gives no verdict (step failures proper are recorded by the runner and judged below)
            counters["history_runner_died"] = counters.get("history_runner_died", 0) + 1
            inconc[0] = "history runner died twice without a result: %s" % (err or "")[-200:]
        else:
            base_cache = {}
            for i, ((e, m, c), r) in enumerate(zip(seq, res)):
                counters["history_steps"] += 1
                # baseline: the same compilation through the CLI entry in a fresh process (entry points must agree with each other)
                bk = (m, json.dumps(c, sort_keys=True))
                if bk not in base_cache:
                    base_cache[bk] = baseline(m, c, "main", "b%d" % len(base_cache))
                b = base_cache[bk]
                if b["ok"] is None:
                    continue
                if not b["ok"]:
                    if r["ok"]:
                        # not compilable on its own (C13's business) - but then it must not compile after some history either
                        v("step-succeeds-only-after-history:%s" % e, "step %d (%s %s) compiles after %s but fails in a fresh process (%s)" % (
                            i, e, os.path.basename(m), [(x[0], os.path.basename(x[1])) for x in seq[:i]], (b.get("error") or "?")[:80]), wit)
                    counters["steps_failing_alone_compared"] = counters.get("steps_failing_alone_compared", 0) + 1
                    continue
                if not r["ok"]:
                    mech = "step-fails-only-after-history:%s:%s" % (e, r.get("mech") or (r.get("error") or "?").split(":")[0])
                    v(mech, "step %d (%s %s) fails after %s but compiles in a fresh process: %s" % (i, e, os.path.basename(m), [(x[0], os.path.basename(x[1])) for x in seq[:i]], r.get("error")), wit)
                    continue
                if r.get("input_modified"):
                    v("entry-point-modifies-the-callers-model-buffer:" + e, "step %d (%s %s) changed the bytes of the model buffer it was given" % (i, e, os.path.basename(m)), wit)
                if "input_modified" in r:
                    counters["caller_buffers_compared"] = counters.get("caller_buffers_compared", 0) + 1
                counters["byte_comparisons"] += 1
                if digest(r["out_path"]) != digest(b["out_path"]):
                    first = "first-in-process" if i == 0 else "after-history"
                    mech = "output-differs-from-fresh-cli:%s:%s" % (e.replace("_same_buffer", "").replace("_memoryview", ""), first)
                    v(mech, "step %d (%s %s) output differs from a fresh CLI compilation of the same model/options" % (i, e, os.path.basename(m)), wit)
                if e == "main" and r.get("csv_path") and b.get("csv_path"):
                    counters["csv_comparisons"] += 1
                    if csv_row(r["csv_path"]) != csv_row(b["csv_path"]):
                        v("summary-differs-from-fresh-cli:" + ("first" if i == 0 else "after-history"), "step %d summary CSV differs" % i, wit)
        key = "h|%s|%s|%s" % (kind, case["fam"], case["fam2"])
    import shutil

    shutil.rmtree(d, ignore_errors=True)
    return {"violations": list(viol.values()), "inconclusive": inconc[0], "counters": counters, "sets": {k: sorted(x) for k, x in sets.items()}, "key": key,
            "sample": {"part": case["part"], "kind": case.get("kind"), "fam": case["fam"]}}


def summarise(agg, tier):
    q = tier == "quick"
    return {
        "thresholds": {"histories": 50 if q else 650, "history_steps": 150 if q else 2000, "twins": 8 if q else 100, "hash_seed_runs": 25 if q else 200, "entry_point_mixes": 10 if q else 120, "caller_buffers_compared": 12 if q else 150, "limit_histories": 4 if q else 50, "steps_failing_alone_compared": 6 if q else 80,
                       "byte_comparisons": 120 if q else 1800},
        "rule": "histories of 2-6 compilations in one fresh process: A;A, A;B, twins (identical LUT contents / constants / names), mixed entry points (CLI main, convert, "
                "convert_bytes with the options those hard-wire), mixed accelerators/configurations, long random sequences, optionally with another user of the global `random` "
                "between steps; each step is compared (output bytes, CSV row) with a fresh-process CLI compilation (PYTHONHASHSEED=0); single compilations are repeated under other "
                "hash seeds. distinct = (history kind, family pair) classes",
        "assumptions": ["baseline = CLI in a fresh process with PYTHONHASHSEED=0", "models that do not compile on their own are skipped (C13 decides those)"],
        "max_inconclusive_frac": 0.1,
    }
