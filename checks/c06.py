"""C06 - The register command stream encodes exactly the operations it was given.

Direct drive of api.npu_generate_register_command_stream with random legal operation lists (maximal-elision histories: A, A', A, B, A ...),
decoded by vv.decode (architectural register tracking) and compared field by field with the independent expected-register model vv.expect;
illegal inputs (alignment / size) must raise; plus every (op list, words) pair captured by a hook in real compilations is re-decoded
and structurally checked (one STOP at the end, waits attached to ops, every op decodes).
"""
import os

import numpy as np

from vv import decode, expect, isa, opgen

PID = "C06"
LEVEL = "exploration"
CASE_TIMEOUT = 600.0
ACCS = list(isa.ACCEL)


def gen_cases(tier, seed):
    q = tier == "quick"
    cases = []
    for i in range(96 if q else 512):
        cases.append({"part": "direct", "seed": seed * 1009 + i, "lists": 40 if q else 160})
    for i in range(8 if q else 32):
        cases.append({"part": "illegal", "seed": seed * 1013 + i, "n": 40 if q else 200})
    for i in range(32 if q else 128):
        cases.append({"part": "pipeline", "seed": seed * 1019 + i, "n": 6 if q else 16})
    return cases


def build_list(rng, acc, n, focus=None):
    g = opgen.Gen(rng, acc)
    g.focus = focus
    specs = []
    base = g.op_list(max(1, n // 3))
    if focus is None and rng.integers(0, 4) == 0:
        # single-row outputs with wide, deep blocks and kernels of height 1..5: the accumulator sizing rule for one-row operations decides AB_START here
        kind = str(rng.choice(["conv", "depthwise", "pool"]))
        try:
            base.insert(int(rng.integers(0, len(base) + 1)), g.conv_like(kind, force=dict(oh=1, ow=int(rng.choice([24, 32, 48, 64, 100])), oc=int(rng.choice([16, 32, 64, 128])),
                                                                                     kh=int(rng.choice([1, 2, 3, 5])), kw=int(rng.choice([1, 3])), sy=int(rng.choice([1, 1, 2])))))
        except (AssertionError, ValueError):
            pass
    for s in base:
        specs.append(s)
        # histories that maximise elision: variants differing in one field, exact repeats, and A,B,A returns
        for _ in range(int(rng.integers(0, 3))):
            specs.append(opgen.variant_of(rng, s, g))
        if len(specs) >= 3 and rng.integers(0, 3) == 0:
            import copy

            specs.append(copy.deepcopy(specs[int(rng.integers(0, len(specs)))]))
    return specs[:n]


def structural(events, info, viol, where, wit):
    """stream-level clauses"""
    def v(mech, msg):
        viol.setdefault(mech, {"mech": mech, "msg": "%s: %s" % (where, msg), "witness": wit})

    if info["stops"] != 1:
        v("stop-count", "%d NPU_OP_STOP commands" % info["stops"])
    elif events[-1].kind != "stop":
        v("stop-not-last", "last event is %s" % events[-1].kind)
    elif events[-1].n != 0xFFFF:
        v("stop-param", "STOP parameter %#x" % events[-1].n)
    if info["trailing_waits"]:
        v("wait-after-last-op", "waits %s follow the last operation" % info["trailing_waits"])
    for ev in events:
        if ev.kind in ("op", "dma"):
            ks = [w for w in ev.op.waits_before if w[0] == "kernel"]
            ds = [w for w in ev.op.waits_before if w[0] == "dma"]
            if len(ks) > 1 or len(ds) > 1:
                v("duplicate-waits", "op %d is preceded by %s" % (ev.op.index, ev.op.waits_before))


def run_direct(case):
    from ethosu.vela import api
    from ethosu.vela.errors import VelaError

    rng = np.random.default_rng(np.random.SeedSequence([6, case["seed"]]))
    viol = {}
    counters = {"ops_decoded": 0, "lists": 0, "fields_compared": 0, "elided_register_values": 0, "words": 0, "dma_ops": 0, "two_core_ops": 0, "multi_tile_fms": 0,
                "lists_rejected": 0}
    sets = {"op_kinds": set(), "dtypes": set()}
    keys = []
    sample = None
    for li in range(case["lists"]):
        acc = ACCS[int(rng.integers(0, 6))]
        n = int(rng.integers(1, 31))
        specs = build_list(rng, acc, n, case.get("focus"))
        ops, blks, kept = [], [], []
        for s in specs:
            try:
                op, cfgs = opgen.to_api(s, acc)
            except AssertionError:
                continue  # no block config fits this shape on this accelerator: not a legal op, skip
            if cfgs is not None:
                b = cfgs[int(rng.integers(0, len(cfgs)))]
                op.block_config = b
                blks.append((b.height, b.width, b.depth))
            else:
                blks.append(None)
            ops.append(op)
            kept.append(s)
        if not ops:
            continue
        wit = {"seed": case["seed"], "list": li, "acc": acc, "n_ops": len(ops)}
        try:
            words = api.npu_generate_register_command_stream(ops, api.NpuAccelerator[opgen.ACC_API[acc]])
        except Exception as e:
            # all generated ops are legal: any exception is a violation, unless the alignment model says the input was illegal
            illegal = [b for s in kept for b in expect.check_alignment(s, acc, [])]
            if illegal and isinstance(e, VelaError):
                counters["lists_rejected"] += 1
                continue
            mech = "legal-list-rejected:%s" % type(e).__name__
            viol.setdefault(mech, {"mech": mech, "msg": "%s: %s" % (type(e).__name__, str(getattr(e, "data", e))[:300]), "witness": dict(wit, specs=[_sd(s) for s in kept][:6])})
            continue
        counters["lists"] += 1
        counters["words"] += len(words)
        try:
            events, info = decode.decode_stream(words)
        except decode.DecodeError as e:
            viol.setdefault("stream-undecodable", {"mech": "stream-undecodable", "msg": str(e), "witness": wit})
            continue
        structural(events, info, viol, "list %d on %s" % (li, acc), wit)
        # 'waits precede the operation they guard': the same trace rule as C04, applied to the queue waits of this stream (block dependency is C04's alone)
        from vv import hazard

        hc = {}
        try:
            for f in hazard.check_stream(events, acc, hc, blockdep_checks=False):
                mech = "wait-missing:%s:%s" % (f["kind"], f["clause"])
                viol.setdefault(mech, {"mech": mech, "msg": "list %d on %s: %s on region %s bytes %s between [%s] and [%s]" % (li, acc, f["clause"], f["region"], f["range"], f["earlier"], f["later"]), "witness": wit})
        except (ValueError, KeyError, IndexError):
            counters["wait_rule_unmodelled_lists"] = counters.get("wait_rule_unmodelled_lists", 0) + 1
        counters["wait_rule_conflicting_pairs"] = counters.get("wait_rule_conflicting_pairs", 0) + hc.get("guarded_conflicts", 0)
        opev = [ev for ev in events if ev.kind in ("op", "dma")]
        if len(opev) != len(ops):
            viol.setdefault("op-count", {"mech": "op-count", "msg": "%d operations given, %d NPU_OP commands emitted" % (len(ops), len(opev)), "witness": wit})
            continue
        prev_regs = None
        for s, blk, ev in zip(kept, blks, opev):
            counters["ops_decoded"] += 1
            sets["op_kinds"].add("%s/%s" % (s["kind"], s.get("sub")))
            if s["kind"] == "dma":
                counters["dma_ops"] += 1
                diffs = expect.compare_dma(s, decode.dma_fields(ev.op)) if ev.kind == "dma" else [("op", "dma", ev.kind)]
            else:
                if ev.kind != "op":
                    diffs = [("op", s["kind"], ev.kind)]
                else:
                    F = decode.Fields(ev.op)
                    diffs = expect.compare_op(s, blk, F, acc)
                    sets["dtypes"].add(s["ifm"].dtype)
                    if F.ncores == 2:
                        counters["two_core_ops"] += 1
                    if s["ifm"].addresses[2] or s["ofm"].addresses[2]:
                        counters["multi_tile_fms"] += 1
            counters["fields_compared"] += 40
            # elision measure: registers whose value equals the previous op's snapshot (they were not re-emitted)
            if prev_regs is not None:
                r0, r1 = ev.op.regs0, ev.op.regs1
                counters["elided_register_values"] += sum(1 for k, v in r0.items() if prev_regs[0].get(k) == v) + sum(1 for k, v in r1.items() if prev_regs[1].get(k) == v)
            prev_regs = (ev.op.regs0, ev.op.regs1)
            for field, exp_v, got_v in diffs:
                base = field.split("[")[0]
                mech = "field-differs:%s:%s" % (s["kind"], base)
                viol.setdefault(mech, {"mech": mech, "msg": "op %d (%s/%s) on %s: %s expected %s, decoded %s" % (ev.op.index, s["kind"], s.get("sub"), acc, field, exp_v, got_v),
                                       "witness": dict(wit, op_index=ev.op.index, spec=_sd(s), block=blk, field=field, expected=str(exp_v), got=str(got_v))})
        keys.append("d:%s:%d:%s" % (acc, len(ops), ",".join(sorted({s["kind"] for s in kept}))))
        if sample is None and len(kept) >= 2:
            sample = {"acc": acc, "ops": [(s["kind"], s.get("sub")) for s in kept][:8], "words": len(words)}
    return {"violations": list(viol.values()), "counters": counters, "sets": {k: sorted(v) for k, v in sets.items()}, "keys": keys, "sample": sample}


def _sd(s):
    d = {}
    for k, v in s.items():
        d[k] = v.as_dict() if hasattr(v, "as_dict") else v
    return d


def run_illegal(case):
    """inputs that break an alignment/size rule must raise a Vela error instead of being emitted"""
    from ethosu.vela import api
    from ethosu.vela.errors import VelaError

    rng = np.random.default_rng(np.random.SeedSequence([66, case["seed"]]))
    viol = {}
    counters = {"illegal_inputs": 0, "illegal_rejected": 0}
    keys = []
    for t in range(case["n"]):
        acc = ACCS[int(rng.integers(0, 6))]
        g = opgen.Gen(rng, acc)
        kind = int(rng.integers(0, 5))
        if kind == 0:
            s = g.conv_like("conv")
            s["ifm"].layout, s["ifm"].strides = "NHCWB16", None
            s["ifm"].addresses[0] = (s["ifm"].addresses[0] // 16) * 16 + int(rng.choice([1, 4, 8]))
            what = "unaligned NHCWB16 base"
        elif kind == 1:
            s = g.conv_like("conv")
            rg, a, ln = s["weights"][0]
            s["weights"][0] = (rg, a + int(rng.choice([1, 8])), ln)
            what = "unaligned weight address"
        elif kind == 2:
            s = g.conv_like("depthwise")
            rg, a, ln = s["weights"][0]
            s["weights"][0] = (rg, a, ln + 8)
            what = "weight length not multiple of 16"
        elif kind == 3:
            s = g.dma()
            if isa.ACCEL[acc]["u65"] and s["dst"][0] != opgen.MEM2MEM:
                s = dict(kind="dma", src=(0, 0x1000, 256), dst=(opgen.MEM2MEM, opgen.lut_base(acc) + 8, 256), lut_slot=0)
                what = "unaligned internal DMA destination"
            else:
                s["src"] = (s["src"][0], (s["src"][1] // 16) * 16 + 4, s["src"][2])
                what = "unaligned DMA source on U55"
                if isa.ACCEL[acc]["u65"]:
                    continue
        else:
            s = g.elementwise()
            if s["ifm"].dtype == "INT8" or s["ifm"].dtype == "UINT8":
                s["ifm"].dtype = s["ofm"].dtype = "INT16"
                if s.get("ifm2") is not None:
                    s["ifm2"].dtype = "INT16"
                s["ifm"].zp = s["ofm"].zp = 0
            s["ifm"].layout, s["ifm"].strides = "NHWC", None
            s["ifm"].tiles, s["ifm"].addresses = (s["ifm"].shape[0], s["ifm"].shape[0], s["ifm"].shape[1]), [s["ifm"].addresses[0] | 1, 0, 0, 0]
            what = "NHWC base not a multiple of the element size"
            if s["ifm"].elem() == 1:
                continue
        if not expect.check_alignment(s, acc, []):
            continue
        try:
            op, cfgs = opgen.to_api(s, acc)
        except AssertionError:
            continue
        if cfgs is not None:
            op.block_config = cfgs[0]
        counters["illegal_inputs"] += 1
        keys.append("i:%s:%s" % (what, acc))
        try:
            words = api.npu_generate_register_command_stream([op], api.NpuAccelerator[opgen.ACC_API[acc]])
            mech = "illegal-input-emitted:" + what.replace(" ", "-")
            viol.setdefault(mech, {"mech": mech, "msg": "%s on %s was emitted (%d words) instead of being rejected" % (what, acc, len(words)), "witness": {"acc": acc, "spec": _sd(s)}})
        except VelaError:
            counters["illegal_rejected"] += 1
        except Exception as e:
            mech = "illegal-input-non-vela-exception:" + type(e).__name__
            viol.setdefault(mech, {"mech": mech, "msg": "%s: %s" % (what, str(e)[:200]), "witness": {"acc": acc, "spec": _sd(s)}})
    return {"violations": list(viol.values()), "counters": counters, "keys": keys, "sample": None}


def run_pipeline(case):
    """every (op list, words) pair produced inside real compilations: decode, structure, and field comparison against the API objects Vela built"""
    from vv import cfggen, compile as vc, netgen, tflw

    rng = np.random.default_rng(np.random.SeedSequence([666, case["seed"]]))
    viol = {}
    counters = {"pipeline_streams": 0, "pipeline_ops_decoded": 0, "pipeline_compilations": 0}
    keys = []
    log = vc.StreamLog().install()
    for t in range(case["n"]):
        fam = ["exact-chain", "exact-dag", "stripe-stress", "approx-tail", "lut-stress", "alias-stress", "buffer-stress", "cpu-mix"][int(rng.integers(0, 8))]
        net = netgen.make(fam, case["seed"] * 50 + t)
        cfg = cfggen.rand_cfg(rng)
        d = os.path.join(case["sdir"], "p%d_%d" % (case["seed"], t))
        os.makedirs(d, exist_ok=True)
        mp = os.path.join(d, "n.tflite")
        open(mp, "wb").write(tflw.build(net))
        del log.calls[:]
        res = vc.run_inproc(mp, cfg, os.path.join(d, "o"))
        import ethosu.vela.tensor as tmod

        tmod.TensorAddressMap.clear_address_map()
        counters["pipeline_compilations"] += 1
        for call in log.calls:
            counters["pipeline_streams"] += 1
            wit = {"family": fam, "nseed": case["seed"] * 50 + t, "cfg": cfg}
            try:
                events, info = decode.decode_stream(call["words"])
            except decode.DecodeError as e:
                viol.setdefault("pipeline:stream-undecodable", {"mech": "pipeline:stream-undecodable", "msg": str(e), "witness": wit})
                continue
            structural(events, info, viol, "pipeline %s" % fam, wit)
            opev = [ev for ev in events if ev.kind in ("op", "dma")]
            if len(opev) != len(call["ops"]):
                viol.setdefault("pipeline:op-count", {"mech": "pipeline:op-count", "msg": "%d ops, %d commands" % (len(call["ops"]), len(opev)), "witness": wit})
                continue
            for ev, apiop in zip(opev, call["ops"]):
                counters["pipeline_ops_decoded"] += 1
                diffs = compare_with_api(ev, apiop, cfg["acc"])
                for field, exp_v, got_v in diffs:
                    mech = "pipeline:field-differs:%s" % field.split("[")[0]
                    viol.setdefault(mech, {"mech": mech, "msg": "%s op %d: %s expected %s decoded %s" % (fam, ev.op.index, field, exp_v, got_v), "witness": wit})
            keys.append("p:%s:%s:%d" % (fam, cfg["acc"], len(opev)))
        import shutil

        shutil.rmtree(d, ignore_errors=True)
    return {"violations": list(viol.values()), "counters": counters, "keys": keys,
            "sample": {"pipeline_hook_evaluations": log.evals}}


def spec_from_api(apiop):
    """convert an API object built by the pipeline into an opgen spec (plain data) so the same expected-register model applies"""
    from ethosu.vela import api

    if isinstance(apiop, api.NpuDmaOperation):
        return dict(kind="dma", src=tuple(apiop.src), dst=tuple(apiop.dest))

    def fm(f):
        if f is None:
            return None
        q = f.quantization
        st = None if f.strides is None else (f.strides.height, f.strides.width, f.strides.depth)
        return opgen.FmSpec((f.shape.height, f.shape.width, f.shape.depth), f.data_type.name, f.layout.name, f.region, (f.tiles.height_0, f.tiles.height_1, f.tiles.width_0),
                            list(f.tiles.addresses), st, None if q is None else q.scale_f32, None if q is None else int(q.zero_point), f.name or "")

    kind = {api.NpuOperationType.Conv2D: "conv", api.NpuOperationType.ConvDepthWise: "depthwise", api.NpuOperationType.Pooling: "pool", api.NpuOperationType.ElementWise: "elementwise"}[apiop.op_type]
    s = dict(kind=kind, sub=getattr(apiop, "sub_op_type", None) and apiop.sub_op_type.name, ifm=fm(apiop.ifm), ofm=fm(apiop.ofm), ifm2=fm(apiop.ifm2), scalar=apiop.ifm2_scalar,
             reversed=getattr(apiop, "reversed_operands", False), upscale=apiop.ifm_upscale.name, rounding=apiop.rounding_mode.name,
             weights=[tuple(w) for w in apiop.weights], biases=[tuple(b) for b in apiop.biases], fused_quantize=apiop.fused_quantize, rescale=getattr(apiop, "rescale", None))
    if kind != "elementwise":
        k = apiop.kernel
        s["kernel"] = (k.height, k.width, k.stride_y, k.stride_x, k.dilation_y, k.dilation_x)
        p = apiop.padding
        s["pad"] = (p.top, p.left, p.bottom, p.right) if p is not None else (0, 0, 0, 0)
    else:
        s["kernel"], s["pad"] = None, None
    if kind == "conv":
        s["traversal"] = apiop.block_traversal.name
    a = apiop.activation
    s["act"] = None if a is None else {"op": a.op_type.name, "min": a.min, "max": a.max, "lut": a.lookup_table_index}
    return s


def compare_with_api(ev, apiop, acc):
    s = spec_from_api(apiop)
    if s["kind"] == "dma":
        return expect.compare_dma(s, decode.dma_fields(ev.op)) if ev.kind == "dma" else [("op", "dma", ev.kind)]
    if ev.kind != "op":
        return [("op", s["kind"], ev.kind)]
    if s["act"] is not None and s["act"]["op"] in ("TANH", "SIGMOID"):
        s["act"] = None
        skip_act = True
    else:
        skip_act = False
    F = decode.Fields(ev.op)
    blk = (apiop.block_config.height, apiop.block_config.width, apiop.block_config.depth)
    diffs = expect.compare_op(s, blk, F, acc)
    if skip_act:
        diffs = [d for d in diffs if not d[0].startswith("activation")]
    if s.get("rescale") is not None or s.get("fused_quantize"):
        diffs = [d for d in diffs if "scale" not in d[0] or d[0].startswith("ifm") is False and False]
    return diffs


def run_case(case):
    return {"direct": run_direct, "illegal": run_illegal, "pipeline": run_pipeline}[case["part"]](case)


def summarise(agg, tier):
    q = tier == "quick"
    return {
        "thresholds": {"ops_decoded": 20000 if q else 600000, "elided_register_values": 500000 if q else 20000000, "lists": 2000 if q else 50000, "dma_ops": 2000 if q else 50000,
                       "two_core_ops": 1000 if q else 30000, "multi_tile_fms": 2000 if q else 50000, "illegal_rejected": 50 if q else 1000, "pipeline_ops_decoded": 1000 if q else 15000, "wait_rule_conflicting_pairs": 1000 if q else 30000},
        "rule": "direct: random legal op lists of length 1..30 over conv/depthwise/pool(MAX,AVERAGE,REDUCE_SUM)/elementwise(10 sub-ops)/DMA, 5 data types, NHWC/NHCWB16, 1-4 tiles, "
                "explicit strides, upscaling, activations incl. table lookup 0-7, 6 accelerators; histories built from single-field variants, exact repeats and A,B,A returns so "
                "that register elision is exercised; illegal: 5 classes of alignment/size violations; pipeline: every stream of real compilations. distinct = (accelerator, length, "
                "kind set) classes",
        "assumptions": ["expected-register model and alignment rules are my reading of the ISA (DESIGN Appendix A)",
                        "SHRAM registers are judged by the C15 validity oracle (>= sizes), scale registers by the C09 reference derivations; pooling OFM_SCALE is not re-derived here",
                        "operations for which npu_find_block_configs finds nothing are skipped (not legal on that accelerator)"],
    }
