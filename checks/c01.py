"""C01 - Compiled model computes the same function as the source model (translation validation by execution of the artefact).

Per compilation, purely from artefacts: the source model runs under the independent reference interpreter (vv.tfref); the output model runs operator by
operator over a byte image of the tensor arena - CPU operators under vv.tfref, every Ethos-U operator by replaying its command stream in the NPU model
(vv.npuexec) over exactly the bytes stored in the output file.  Outputs must be bit-exact for the exact class and within one quantisation step for the
approximate class.  Each network is run on several inputs and with two different arena poison patterns (the outputs must not depend on the poison:
C03 monitor 3).
"""
import os

import numpy as np

from vv import artefact, campaign, fbr, npuexec, tfref, isa

PID = "C01"
LEVEL = "translation_validation"
FORK_PER_CASE = True
CASE_TIMEOUT = 400.0


def cfg_hook(rng, cfg, fam, i):
    if i % 3 == 0:
        cfg["cache"] = int(rng.choice([2048, 4096, 8192, 16384, 65536]))
    if fam == "buffer-stress" and i % 2:
        cfg["acc"], cfg["mode"] = "ethos-u65-512", None  # two cores, weights streamed through SRAM buffers


def gen_cases(tier, seed):
    fams = ["exact-chain", "exact-dag", "approx-tail", "stripe-stress", "alias-stress", "buffer-stress", "exact-chain", "approx-tail", "cpu-mix", "lut-stress", "exact-chain-big", "shared-weights", "mixed-width", "strided-first"]
    return campaign.gen_cases(tier, seed, 1, 330, 8000, families=fams, cfg_hook=cfg_hook, extra=[("shape-ops", 36, 800), ("approx-tail2", 24, 500), ("grouped-conv", 18, 400), ("cpu-mix", 48, 800)])


def rand_inputs(rng, sg, variant):
    out = {}
    for ti in sg.inputs:
        T = sg.tensors[ti]
        lo, hi = tfref.RANGE.get(T.dtype, (0, 1))
        zp = (T.zp or [0])[0]
        shp = T.shape
        if variant == 0:
            v = rng.integers(lo, hi + 1, shp)
        elif variant == 1:
            v = np.full(shp, lo)
        elif variant == 2:
            v = np.full(shp, hi)
        elif variant == 3:
            v = np.full(shp, min(hi, max(lo, zp)))
        else:
            v = np.where(rng.random(shp) < 0.5, lo, hi)
        out[ti] = np.asarray(v, dtype=np.int64).reshape(shp)
    for ti, T in enumerate(sg.tensors):
        if getattr(T, "is_variable", False) and T.data is None and ti not in out and T.dtype in tfref.RANGE:
            # persistent state: part of what the inference is a function of; the interpreter's reset value (the zero point) in both models
            out[ti] = np.full(T.shape, (T.zp or [0])[0], dtype=np.int64)
    return out


def np_dtype(T):
    return np.dtype({"int8": "<i1", "uint8": "<u1", "int16": "<i2", "int32": "<i4", "int64": "<i8", "float32": "<f4"}.get(T.dtype, "<u1"))


def store(arena, off, T, val):
    b = np.asarray(val).astype(np_dtype(T)).tobytes()
    if off + len(b) > len(arena):
        raise npuexec.ExecError("tensor %s does not fit the arena" % T.name)
    arena[off : off + len(b)] = np.frombuffer(b, dtype=np.uint8)


def load(arena, off, T):
    n = int(np.prod(T.shape)) if T.shape else 1
    dt = np_dtype(T)
    if off + n * dt.itemsize > len(arena):
        raise npuexec.ExecError("tensor %s lies outside the arena" % T.name)
    return np.frombuffer(arena[off : off + n * dt.itemsize].tobytes(), dtype=dt).astype(np.float64 if dt.kind == "f" else np.int64).reshape(T.shape)


def run_output_model(art, acc, inputs_by_name, poison, counters):
    """-> {output tensor name: int64 array}"""
    sg, offs = art.sg, art.offsets
    lens = [art.region_lengths(n) for n in art.npu_ops if n.frame_error is None]
    arena_len = max([l[1] for l in lens] + [offs[i] + art.tensor_bytes(i) for i in range(len(sg.tensors)) if offs[i] >= 0] + [16])
    fast_len = max([l[2] for l in lens] + [16])
    shram_size = isa.ACCEL[acc]["banks"] * isa.SHRAM_BANK_SIZE
    mem = npuexec.Memory({0: 16, 1: arena_len, 2: fast_len}, shram_size, poison)
    arena = mem.mem[1]
    it = tfref.Interp(art.model)
    for ti in sg.inputs:
        T = sg.tensors[ti]
        if offs[ti] < 0:
            continue  # an input nobody consumes is not placed in the arena
        store(arena, offs[ti], T, inputs_by_name[T.name])
    for ti, T in enumerate(sg.tensors):
        if getattr(T, "is_variable", False) and T.data is None and offs[ti] >= 0 and T.name in inputs_by_name and ti not in sg.inputs:
            store(arena, offs[ti], T, inputs_by_name[T.name])  # persistent state: defined before the inference starts
    npu_by_index = {n.op_index: n for n in art.npu_ops}
    for k, op in enumerate(sg.ops):
        if k in npu_by_index:
            n = npu_by_index[k]
            if n.frame_error is not None:
                raise npuexec.ExecError("command stream frame: %s" % n.frame_error)
            mem.mem[0] = art.flash_bytes(n).copy()
            npuexec.run_stream(n.words, acc, mem, counters)
        else:
            for ti in op.inputs:
                if ti >= 0 and offs[ti] >= 0:
                    it.vals[ti] = load(arena, offs[ti], sg.tensors[ti])
            it.exec_op(op)
            for ti in op.outputs:
                if offs[ti] >= 0:
                    store(arena, offs[ti], sg.tensors[ti], it.vals[ti])
            counters["cpu_ops_executed"] = counters.get("cpu_ops_executed", 0) + 1
    out = {}
    for ti in sg.outputs:
        T = sg.tensors[ti]
        out[T.name] = load(arena, offs[ti], T) if offs[ti] >= 0 else it.get(ti)
    return out


RELUS = {19, 20, 21}
# a PACK whose 4D result has a leading dimension above one: the compiler treats that dimension as a batch and its copies move batch 0 only (DESIGN 8.3)
PACK_FEATURE = "pack-result-with-leading-dimension-above-one"


def net_features(net):
    """structural features used to key findings by mechanism"""
    feats = set()
    prod = {}
    for o in net.ops:
        for t in o.outputs:
            prod[t] = o
    for o in net.ops:
        if o.code in RELUS and o.inputs and o.inputs[0] in prod:
            p = prod[o.inputs[0]]
            if p.code in RELUS or p.opts.get("fused_activation_function", 0) not in (0, None):
                feats.add("relu-chain")
        if o.code in (3, 4) and len(o.inputs) > 2 and net.t(o.inputs[0]).dtype.name == "int16" and net.t(o.inputs[2]).dtype.name == "int32":
            feats.add("int16-conv-int32-bias")
        if o.code == 83 and len(net.t(o.outputs[0]).shape) == 4 and net.t(o.outputs[0]).shape[0] > 1:
            feats.add(PACK_FEATURE)
    return sorted(feats)


def artefact_features(art):
    """features of the emitted streams used to key findings by mechanism"""
    from vv import decode

    feats = set()
    for n in art.npu_ops:
        if n.frame_error is not None:
            continue
        events, _ = decode.decode_stream(n.words)
        for ev in events:
            if ev.kind == "op":
                F = decode.Fields(ev.op)
                if F.upscale == 1 and F.ofm.height % 2 == 1 and F.ofm.height > 1:
                    feats.add("odd-height-stripe-with-nearest-upscaling")
    return sorted(feats)


def stripe_features(log):
    """mechanism discriminators taken from the stripe-geometry monitor of C10 run over the streams of this very compilation"""
    from checks import c10

    found = {}
    for call in log.calls:
        try:
            c10.analyse_call(call, lambda mech, msg: found.setdefault(mech, msg), {})
        except Exception:
            continue
    return sorted("c10-" + m.replace(":", "-") for m in found)


def run_case(case):
    from vv import compile as vc

    log = vc.StreamLog().install()
    c = campaign.Compiled(case)
    counters = {"programs": 1, "compiled_ok": 0, "executed": 0, "outputs_compared": 0, "exact_outputs_compared": 0, "approx_outputs_compared": 0, "elements_compared": 0,
                "poison_pairs": 0, "inconclusive_unmodelled": 0}
    viol = {}
    sets = {"npu_op_kinds": set(), "unmodelled": set()}
    inconc = None
    try:
        if c.art is None:
            return {"violations": [], "counters": counters, "key": None, "sample": None}
        counters["compiled_ok"] = 1
        wit = c.witness()
        net = c.net
        klass, tol = net.info.get("klass"), net.info.get("tol")
        src = fbr.RModel(c.src_bytes)
        ssg = src.subgraphs[0]
        acc = case["cfg"]["acc"]
        rng = np.random.default_rng(np.random.SeedSequence([101, case["nseed"]]))
        nvar = 3 if klass in ("exact", "approx") else 1
        for variant in [0, 4, int(rng.integers(1, 4))][:nvar]:
            ins = rand_inputs(rng, ssg, variant)
            try:
                ref = tfref.Interp(src)
                ref.run(dict(ins))
                want = {ssg.tensors[ti].name: ref.vals[ti] if ti in ref.vals else ref.get(ti) for ti in ssg.outputs}
            except tfref.Unsupported as e:
                inconc = "reference: %s" % e
                sets["unmodelled"].add("ref:" + str(e)[:40])
                break
            by_name = {ssg.tensors[ti].name: v for ti, v in ins.items()}
            got = []
            try:
                for poison in (0xA5, 0x3C):
                    got.append(run_output_model(c.art, acc, by_name, poison, counters))
            except npuexec.Unmodelled as e:
                inconc = "npu model: %s" % e
                sets["unmodelled"].add("npu:" + str(e)[:40])
                counters["inconclusive_unmodelled"] = 1
                break
            except tfref.Unsupported as e:
                inconc = "cpu op: %s" % e
                sets["unmodelled"].add("cpu:" + str(e)[:40])
                break
            except npuexec.ExecError as e:
                mech = "execution-error:" + str(e).split(" (")[0][:60].replace(" ", "-")
                viol.setdefault(mech, {"mech": mech, "msg": "executing the output model failed: %s" % e, "witness": wit})
                break
            counters["executed"] += 1
            counters["poison_pairs"] += 1
            for name in got[0]:
                if not np.array_equal(got[0][name], got[1].get(name)):
                    d = np.argwhere(got[0][name] != got[1][name])
                    pmech = "output-depends-on-arena-poison" + (":" + PACK_FEATURE if PACK_FEATURE in net_features(net) else "")
                    viol.setdefault(pmech, {"mech": pmech, "msg": "output %s differs between two arena poison patterns at %d positions (first %s): uninitialised or stale memory is consumed" % (name, len(d), d[0].tolist()), "witness": wit})
            if tol is None and klass == "cpu-mix" and not ref.approx_ops and os.environ.get("VV_C01_CPUMIX", "1") == "1":
                # a CPU / Ethos-U mix in which the reference met no approximated operator: every operator is of the exact class (CPU operators run under the same
                # reference in both models), so the outputs must agree bit for bit
                tol_case, klass_case = 0, "exact"
                counters["cpu_mix_networks_compared"] = counters.get("cpu_mix_networks_compared", 0) + (1 if variant == 0 else 0)
            else:
                tol_case, klass_case = tol, klass
            if tol_case is None:
                continue
            out_names = [t for t in want]
            for name in out_names:
                if name not in got[0]:
                    viol.setdefault("output-missing", {"mech": "output-missing", "msg": "output %s of the source is not an output of the compiled model" % name, "witness": wit})
                    continue
                w, g = want[name], got[0][name]
                counters["outputs_compared"] += 1
                counters["elements_compared"] += int(w.size)
                counters["exact_outputs_compared" if klass_case == "exact" else "approx_outputs_compared"] += 1
                if w.shape != g.shape:
                    viol.setdefault("output-shape", {"mech": "output-shape", "msg": "%s shape %s vs %s" % (name, w.shape, g.shape), "witness": wit})
                    continue
                diff = np.abs(w - g)
                alt = getattr(ref, "alt", {})
                allowed = tol_case
                if diff.max(initial=0) > allowed:
                    # MUL has two reference derivations (float / double): accept the second one for a final MUL
                    ti = [t for t in ssg.outputs if ssg.tensors[t].name == name][0]
                    if ti in alt and np.abs(alt[ti] - g).max(initial=0) <= allowed:
                        continue
                    bad = np.argwhere(diff > allowed)
                    kinds = ",".join(net.info.get("kinds", []))
                    feats = net_features(net) + artefact_features(c.art) + stripe_features(log)
                    if diff.max() > 1 and "int16-conv-int32-bias" in feats:
                        feats.remove("int16-conv-int32-bias")  # single instead of double rounding explains one LSB only
                    mech = "output-differs-from-source:%s:%s" % (klass_case, (net.info["family"].split(":")[-1] + ("+" + "+".join(feats) if feats else "")) if klass_case == "approx" else ("+".join(feats) if feats else "maxdiff>%d" % min(int(diff.max()), 3)))
                    viol.setdefault(mech, {"mech": mech, "msg": "%s: %d of %d elements differ by more than %d (max |diff| %d, first at %s: source %d compiled %d); input variant %d; ops %s" % (
                        name, len(bad), w.size, allowed, int(diff.max()), bad[0].tolist(), int(w[tuple(bad[0])]), int(g[tuple(bad[0])]), variant, kinds), "witness": dict(wit, variant=variant)})
        for k in list(counters):
            if k.startswith("op:"):
                sets["npu_op_kinds"].add(k[3:])
    finally:
        c.cleanup()
    return {"violations": list(viol.values()), "inconclusive": inconc, "counters": {k: v for k, v in counters.items() if not k.startswith("op:")}, "sets": {k: sorted(v) for k, v in sets.items()},
            "key": "%s|%s|%s" % (case["family"], ",".join(c.net.info.get("kinds", [])), case["cfg"]["acc"]) if counters["executed"] else None,
            "sample": {"family": case["family"], "kinds": c.net.info.get("kinds"), "acc": case["cfg"]["acc"], "executed_variants": counters["executed"], "npu_ops": counters.get("npu_ops_executed", 0)}}


def summarise(agg, tier):
    q = tier == "quick"
    c = agg.counters
    return {
        "thresholds": {"compiled_ok": 230 if q else 6000, "executed": 300 if q else 8000, "exact_outputs_compared": 200 if q else 5000, "approx_outputs_compared": 40 if q else 1000,
                       "npu_ops_executed": 4000 if q else 100000, "poison_pairs": 300 if q else 8000},
        "coverage": {"programs": c.get("compiled_ok", 0), "disagreements_checked": len(agg.violations)},
        "rule": "compile campaign (exact-chain/dag, stripe-, alias-, buffer-stress = exact class; approx-tail = one approximated operator at the tail; cpu-mix / lut-stress executed "
                "for the poison differential only) x random configurations; 3 input tensors per exact/approx network (uniform random, checkerboard of extremes, one of all-min / "
                "all-max / zero-point) x 2 arena poison patterns. distinct = (family, operator kinds, accelerator)",
        "assumptions": ["the NPU arithmetic model (vv.npuexec, DESIGN Appendix B) and the reference interpreter (vv.tfref, Appendix C) are the trusted base; modes they do not model make a "
                        "case inconclusive", "inputs are sampled, not enumerated"],
        "max_inconclusive_frac": 0.35,
    }
