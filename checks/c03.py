"""C03 - No NPU operation consumes memory that was not defined for it.

Monitor 1 (artefact-only, defined-before-use): every output model is replayed operator by operator with a shadow 'defined' interval set per region
(vv.defuse): graph inputs and CPU-operator outputs define their arena extents, NPU operations and DMAs must read only defined bytes (exact
footprints) and define what they write, table slots in SHRAM are defined by DMA and invalidated by operations whose buffers cover them, and after
each Ethos-U operator all of its output tensors must be completely defined.
Monitor 2 (writer tags): every emitted stream is replayed with a last-writer tag per byte; the tensor identity of each access comes from the compiler's own
stripe / DMA records (harness-side wrapper of generate_command_stream).  A read of tensor T (for encoded weights: of depth slice d of buffer B) must not find
bytes that the stream last wrote for another tensor or slice - this is what separates stale / foreign bytes from merely initialised ones.
Monitor 3 (poison differential): the artefact is executed twice in the NPU model (vv.npuexec) with different arena / fast-scratch poison patterns and the same inputs;
the outputs must be identical.  Row-granular writer tags for rolling buffers are checked with C10 (same hook data).
"""
import numpy as np

from vv import campaign, defuse, footprint, isa

PID = "C03"
LEVEL = "exploration"
FORK_PER_CASE = True
CASE_TIMEOUT = 300.0


def cfg_hook(rng, cfg, fam, i):
    if i % 2 == 0:
        cfg["cache"] = int(rng.choice([2048, 4096, 8192, 16384, 32768]))
    if fam == "mixed-width":
        cfg["optimise"] = "Size" if i % 2 else cfg.get("optimise")
        cfg["cache"] = [4096, 16384, 65536, None][i % 4]
    if fam == "buffer-stress":
        # weights streamed through SRAM buffers in several unequal depth slices need the Performance strategy and room for a double buffer
        cfg["optimise"] = "Performance"
        cfg["cache"] = [None, 16384, 32768, 65536][i % 4]
    if fam == "buffer-stress" and i % 3 != 1:
        # two cores + weights streamed through SRAM buffers: per-core ranges carry padding when a core's channel count is not a multiple of 8
        cfg["acc"], cfg["mode"] = "ethos-u65-512", None
    if fam == "lut-stress" and i % 2:
        cfg["acc"] = str(rng.choice(["ethos-u55-32", "ethos-u55-64"]))  # no reserved LUT banks: slots are invalidated by other ops
        if i % 3:
            cfg["optimise"] = "Size"  # cascades: a table operation runs as several stripes with other operations in between


def gen_cases(tier, seed):
    fams = ["stripe-stress", "buffer-stress", "lut-stress", "alias-stress", "exact-chain", "exact-dag", "cpu-mix", "approx-tail", "exact-chain-big", "stripe-stress", "buffer-stress", "lut-stress", "stripe-resize", "shared-weights", "buffer-stress", "mixed-width", "cpu-mix"]
    return campaign.gen_cases(tier, seed, 3, 420, 12000, families=fams, cfg_hook=cfg_hook, extra=[("shape-ops", 24, 500), ("approx-tail2", 12, 300), ("grouped-conv", 8, 200), ("lstm", 24, 400)])


def interval(off, size):
    return np.array([[off, off + size]], dtype=np.int64)


def check(c, viol, counters):
    art, cfg = c.art, c.case["cfg"]
    wit = c.witness()
    sg, offs = art.sg, art.offsets

    def v(mech, msg):
        viol.setdefault(mech, {"mech": mech, "msg": msg, "witness": wit})

    if offs is None:
        return
    sh = defuse.Shadow()
    containers = set()
    for n in art.npu_ops:
        containers |= {n.scratch_tensor, n.scratch_fast_tensor}
    for i in list(sg.inputs) + [k_ for k_, T_ in enumerate(sg.tensors) if getattr(T_, "is_variable", False) and T_.data is None]:
        if offs[i] >= 0:
            sh.define(1, interval(offs[i], art.tensor_bytes(i)))  # graph inputs and persistent state are defined when the inference starts
    npu_by_index = {n.op_index: n for n in art.npu_ops}
    for k, op in enumerate(sg.ops):
        if k in npu_by_index:
            n = npu_by_index[k]
            if n.frame_error is not None:
                continue
            lens = art.region_lengths(n)
            sh.defined[0] = interval(0, lens[0])
            sh.defined.pop("shram", None)
            # inputs of the custom operator must already be defined by whoever produced them
            for ti in n.inputs:
                if offs[ti] >= 0:
                    miss = sh.missing(1, interval(offs[ti], art.tensor_bytes(ti)))
                    if len(miss) and sg.tensors[ti].data is None:
                        v("custom-op-input-never-defined", "input %s [%d,+%d) of Ethos-U operator %d has %d undefined bytes" % (sg.tensors[ti].name, offs[ti], art.tensor_bytes(ti), k, footprint.total_bytes(miss)))
                        sh.define(1, interval(offs[ti], art.tensor_bytes(ti)))
            c2 = {}
            findings = defuse.replay_stream(n.words, cfg["acc"], sh, c2)
            for kk, vv in c2.items():
                counters[kk] = counters.get(kk, 0) + vv
            for f in findings[:3]:
                mech = "read-of-undefined-bytes:%s:%s" % ("shram-table" if f["region"] == "shram" else "region" + f["region"], f["part"])
                v(mech, "%s reads %d undefined bytes of region %s, first at %s (%s)" % (f["op"], f["nbytes"], f["region"], f["first"], f["part"]))
            for ti in n.outputs:
                if offs[ti] >= 0:
                    miss = sh.missing(1, interval(offs[ti], art.tensor_bytes(ti)))
                    counters["npu_outputs_checked"] = counters.get("npu_outputs_checked", 0) + 1
                    if len(miss):
                        v("npu-output-not-completely-written", "output %s [%d,+%d) of Ethos-U operator %d: %d bytes never written, first %s" % (
                            sg.tensors[ti].name, offs[ti], art.tensor_bytes(ti), k, footprint.total_bytes(miss), (int(miss[0, 0]), int(miss[0, 1]))))
                        sh.define(1, interval(offs[ti], art.tensor_bytes(ti)))
            counters["npu_streams"] = counters.get("npu_streams", 0) + 1
        else:
            for ti in op.inputs:
                if ti >= 0 and offs[ti] >= 0 and ti not in containers:
                    miss = sh.missing(1, interval(offs[ti], art.tensor_bytes(ti)))
                    if len(miss):
                        v("cpu-op-input-never-defined", "CPU operator %d reads %s which has %d undefined bytes" % (k, sg.tensors[ti].name, footprint.total_bytes(miss)))
            for ti in op.outputs:
                if offs[ti] >= 0:
                    sh.define(1, interval(offs[ti], art.tensor_bytes(ti)))


def poison_differential(c, viol, counters):
    """monitor 3: the compiled inference must be a function of the model inputs alone - execute the artefact in the NPU model with two different
    arena / fast-scratch poison patterns and identical inputs; any output difference means uninitialised or stale bytes were consumed"""
    from checks import c01
    from vv import fbr, npuexec, tfref

    src = fbr.RModel(c.src_bytes)
    ssg = src.subgraphs[0]
    rng = np.random.default_rng(np.random.SeedSequence([303, c.case["nseed"]]))
    ins = c01.rand_inputs(rng, ssg, 0)
    by_name = {ssg.tensors[ti].name: v for ti, v in ins.items()}
    try:
        a = c01.run_output_model(c.art, c.case["cfg"]["acc"], by_name, 0xA5, {})
        b = c01.run_output_model(c.art, c.case["cfg"]["acc"], by_name, 0x3C, {})
    except (npuexec.Unmodelled, tfref.Unsupported):
        counters["poison_unmodelled"] = counters.get("poison_unmodelled", 0) + 1
        return
    except npuexec.ExecError as e:
        counters["poison_exec_error"] = counters.get("poison_exec_error", 0) + 1
        return
    counters["poison_differentials"] = counters.get("poison_differentials", 0) + 1
    for name in a:
        if not np.array_equal(a[name], b.get(name)):
            d = np.argwhere(a[name] != b[name])
            viol.setdefault("output-depends-on-arena-poison", {"mech": "output-depends-on-arena-poison", "msg": "output %s differs between two arena poison patterns at %d positions (first %s)" % (name, len(d), d[0].tolist()),
                                                               "witness": c.witness()})


def writer_tags(c, log, viol, counters):
    """monitor 2: replay every emitted stream with a last-writer tag per byte (tensor identity from the compiler's own stripe records, obtained through a
    harness-side wrapper of generate_command_stream): a read of tensor T must not find bytes that this stream last wrote for another tensor / depth slice"""
    for call in log.calls:
        c2 = {}
        try:
            found = defuse.tag_replay(call, c.case["cfg"]["acc"], c2)
        except (ValueError, KeyError, IndexError) as e:  # geometry outside the footprint model: counted, not judged
            counters["tag_streams_unmodelled"] = counters.get("tag_streams_unmodelled", 0) + 1
            continue
        for k, n in c2.items():
            counters[k] = counters.get(k, 0) + n
        for f in found[:3]:
            mech = "read-of-bytes-last-written-for-another-tensor:%s" % f["part"]
            viol.setdefault(mech, {"mech": mech, "msg": "%s reads %s %s at region %s %s, but those bytes were last written as %s" % (f["op"], f["part"], f["want"], f["region"], f["first"], f["found"]),
                                   "witness": c.witness()})


def writer_tags_model(c, log, viol, counters):
    """monitor 2 carried across the inference: graph inputs, CPU operators and all Ethos-U operators of the output model in execution order share one arena shadow,
    so that a tensor overwritten in one stream and read in a later one (or by way of a CPU operator) is seen"""
    if len(log.calls) < 1 or c.art.offsets is None:
        return
    c2 = {}
    try:
        found = defuse.tag_replay_model(log.calls, c.art, c.case["cfg"]["acc"], c2)
    except (ValueError, KeyError, IndexError):
        counters["tag_model_unmodelled"] = counters.get("tag_model_unmodelled", 0) + 1
        return
    for k in ("tag_model_streams", "tag_model_cpu_ops", "tag_model_streams_unmatched"):
        if k in c2:
            counters[k] = counters.get(k, 0) + c2[k]
    if c2.get("tag_model_streams", 0) >= 2:
        counters["tag_models_with_several_streams"] = counters.get("tag_models_with_several_streams", 0) + 1
    sg = c.art.sg
    in_names = {defuse.canonical_name(sg.tensors[i].name) for i in sg.inputs}
    first_ops = set()
    if sg.ops:
        first_ops = {defuse.canonical_name(sg.tensors[i].name) for i in sg.ops[0].inputs if i >= 0}
    for f in found[:3]:
        mech = "read-of-bytes-last-written-for-another-tensor:%s:across-operators" % f["part"]
        want_name = defuse.canonical_name(str(f["want"][0]))
        writer = f["found"][1] if f["found"][0] == "ext" else None
        dyn_out = {sg.tensors[o].name: o for op in sg.ops if op.builtin == 22 and len(op.inputs) > 1 and op.inputs[1] >= 0 and sg.tensors[op.inputs[1]].data is None for o in op.outputs}
        if writer in dyn_out and c.art.offsets[dyn_out[writer]] == 0:
            # the C12 findings about CPU-resident RESHAPEs with run-time shapes, seen from the reader's side: such a tensor gets no live range of its own and is
            # published at arena offset 0, on top of whatever lives there
            mech += ":overwritten-by-the-unallocated-output-of-a-run-time-shaped-reshape"
        elif want_name in in_names and want_name not in first_ops:
            # the C12 finding seen from the reader's side: a graph input that the first operator does not read is reserved from its first use only
            mech += ":graph-input-first-read-by-a-later-operator"
        viol.setdefault(mech, {"mech": mech, "msg": "%s reads %s %s at region %s %s, but those bytes were last written as %s (earlier stream / CPU operator / graph input)" % (
            f["op"], f["part"], f["want"], f["region"], f["first"], f["found"]), "witness": c.witness()})


def run_case(case):
    from vv import compile as vc

    log = vc.StreamLog().install()
    c = campaign.Compiled(case)
    counters = {"compilations": 1, "compiled_ok": 0}
    viol = {}
    try:
        if c.art is not None:
            counters["compiled_ok"] = 1
            check(c, viol, counters)
            writer_tags(c, log, viol, counters)
            writer_tags_model(c, log, viol, counters)
            poison_differential(c, viol, counters)
            from checks import c01

            if c01.PACK_FEATURE in c01.net_features(c.net):
                # the recorded finding about PACK results with a leading dimension above one (only batch 0 of such a tensor is copied): its symptoms carry the
                # discriminator, every other mechanism on such a network is reported as usual
                counters["networks_with_batched_pack"] = 1
                for m in list(viol):
                    if m == "output-depends-on-arena-poison" or m.startswith("read-of-undefined-bytes:region1:") or m == "npu-output-not-completely-written" or m.startswith("read-of-bytes-last-written-for-another-tensor:"):
                        v_ = viol.pop(m)
                        v_["mech"] = m + ":" + c01.PACK_FEATURE
                        viol[v_["mech"]] = v_
        if case["family"] == "lstm":
            # findings about the LSTM unrolling are keyed with the operator
            counters["lstm_networks"] = 1
            for m_ in list(viol):
                v_ = viol.pop(m_)
                v_["mech"] = m_ + ":lstm"
                viol[v_["mech"]] = v_
    finally:
        c.cleanup()
    return {"violations": list(viol.values()), "counters": counters,
            "key": "%s|%s|%s|%d" % (case["family"], case["cfg"]["acc"], case["cfg"].get("cache"), counters.get("ops_replayed", 0)) if counters.get("ops_replayed") else None,
            "sample": {"family": case["family"], "acc": case["cfg"]["acc"], "ops_replayed": counters.get("ops_replayed", 0), "lut_dmas": counters.get("lut_dmas", 0)}}


def summarise(agg, tier):
    q = tier == "quick"
    return {
        "thresholds": {"compiled_ok": 300 if q else 9000, "ops_replayed": 5000 if q else 150000, "bytes_read_checked": 5000000 if q else 200000000, "lut_dmas": 50 if q else 2000,
                       "lut_reads": 100 if q else 4000, "npu_outputs_checked": 300 if q else 9000, "poison_differentials": 250 if q else 7000,
                       "tagged_reads_checked": 4000 if q else 120000, "tagged_reads_of_stream_written_bytes": 2500 if q else 80000, "tagged_weight_slices": 300 if q else 9000, "tag_model_streams": 300 if q else 9000, "tag_models_with_several_streams": 8 if q else 250},
        "rule": "compile campaign over cascade-heavy (stripe-stress), buffering-heavy (buffer-stress), LUT-heavy (lut-stress, half on accelerators without reserved LUT banks), "
                "alias-prone, CPU/NPU-interleaved and regular families x random configurations with small caches; every read of every decoded operation is checked per byte "
                "interval against the shadow 'defined' set. distinct = (family, accelerator, cache, ops replayed) classes",
        "assumptions": ["monitor 1 decides uninitialised reads, incompletely written outputs and invalidated table slots; monitor 3 (poison differential in the NPU model) decides whether "
                        "any consumed byte was not produced by this inference; stale-but-initialised bytes are decided by C01 (wrong result) and the C10 rolling-buffer tags",
                        "SHRAM table state is not assumed to survive from one command stream to the next"],
        "max_inconclusive_frac": 0.05,
    }
