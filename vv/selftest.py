"""Engine self-tests run by setup.py (cheap, deterministic)."""


def run():
    ok = True
    from . import fbr, netgen, tflw

    for fam in ("exact-chain", "exact-dag", "approx-tail", "cpu-mix"):
        net = netgen.make(fam, 1)
        data = tflw.build(net)
        m = fbr.RModel(data)
        sg = m.subgraphs[0]
        if len(sg.tensors) != len(net.tensors) or len(sg.ops) != len(net.ops):
            print("selftest: tflw/fbr round trip mismatch for", fam)
            ok = False
        for t, rt in zip(net.tensors, sg.tensors):
            if t.name != rt.name or list(t.shape) != rt.shape:
                print("selftest: tensor mismatch", t.name)
                ok = False
    print("selftest:", "ok" if ok else "FAILED")
    return ok
