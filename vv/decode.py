"""Command-stream decoder: walks 32-bit words, tracks the architectural register file exactly as hardware would (one value per
register, nothing is elided from the decoder's point of view) and materialises a DecodedOp at every NPU_OP_*."""
from . import isa


class DecodeError(Exception):
    pass


def s16(v):
    v &= 0xFFFF
    return v - 0x10000 if v & 0x8000 else v


class FM:
    """decoded feature map view (IFM / IFM2 / OFM)"""

    __slots__ = ("region", "bases", "height0", "height1", "width0", "stride_x", "stride_y", "stride_c", "depth", "signed", "bits", "nhcwb16", "zero_point",
                 "height", "width", "scale_mode", "raw_precision")

    def elem(self):
        return self.bits // 8

    def addr(self, y, x, c):
        """byte address of element (y, x, c) following the tile rule"""
        if x >= self.width0:
            x -= self.width0
            if y >= self.height1:
                y -= self.height1
                t = 3
            else:
                t = 1
        elif y >= self.height0:
            y -= self.height0
            t = 2
        else:
            t = 0
        e = self.bits // 8
        if self.nhcwb16:
            return self.bases[t] + y * self.stride_y + x * 16 * e + (c // 16) * self.stride_c + (c % 16) * e
        return self.bases[t] + y * self.stride_y + x * self.stride_x + c * e

    def describe(self):
        return dict(region=self.region, bases=self.bases, tiles=(self.height0, self.height1, self.width0), strides=(self.stride_y, self.stride_x, self.stride_c),
                    shape=(self.height, self.width, self.depth), bits=self.bits, signed=self.signed, nhcwb16=self.nhcwb16, zp=self.zero_point)


class DecodedOp:
    def __init__(self):
        self.kind = None  # conv | depthwise | pool | elementwise | dma
        self.sub = None
        self.index = 0  # op index in the stream
        self.word_index = 0
        self.regs0 = {}
        self.regs1 = {}
        self.waits_before = []  # (kind, n) waits emitted between the previous op and this one

    def __repr__(self):
        return "<%s %s #%d>" % (self.kind, self.sub, self.index)


class Event:
    __slots__ = ("kind", "op", "n", "word_index")

    def __init__(self, kind, op=None, n=None, word_index=0):
        self.kind, self.op, self.n, self.word_index = kind, op, n, word_index


def decode_stream(words, strict=True):
    """-> (events, info). events: list of Event(kind in 'op','dma','kwait','dwait','stop')"""
    regs0, regs1 = {}, {}
    written0, written1 = set(), set()
    events = []
    i = 0
    n = len(words)
    nops = 0
    pending_waits = []
    stops = 0
    reg_writes = 0
    while i < n:
        w = words[i]
        code = w & 0x3FF
        mode = (w >> 14) & 3
        if (w >> 10) & 0xF:
            raise DecodeError("reserved opcode bits set in word %d: %#010x" % (i, w))
        param = (w >> 16) & 0xFFFF
        if mode == 1:
            if code not in isa.CMD1:
                raise DecodeError("unknown cmd1 opcode %#x at word %d" % (code, i))
            if i + 1 >= n:
                raise DecodeError("cmd1 without payload at end of stream")
            regs1[isa.CMD1[code]] = (param, words[i + 1])
            written1.add(isa.CMD1[code])
            reg_writes += 1
            i += 2
            continue
        if mode != 0:
            raise DecodeError("bad payload mode %d at word %d" % (mode, i))
        if code not in isa.CMD0:
            raise DecodeError("unknown cmd0 opcode %#x at word %d" % (code, i))
        name = isa.CMD0[code]
        if not name.startswith("NPU_OP_"):
            regs0[name] = param
            written0.add(name)
            reg_writes += 1
            i += 1
            continue
        if stops and strict:
            raise DecodeError("command after NPU_OP_STOP at word %d" % i)
        if name == "NPU_OP_STOP":
            stops += 1
            events.append(Event("stop", n=param, word_index=i))
        elif name == "NPU_OP_KERNEL_WAIT":
            events.append(Event("kwait", n=param & 0xF, word_index=i))
            pending_waits.append(("kernel", param & 0xF))
        elif name == "NPU_OP_DMA_WAIT":
            events.append(Event("dwait", n=param & 0xF, word_index=i))
            pending_waits.append(("dma", param & 0xF))
        elif name in ("NPU_OP_IRQ", "NPU_OP_PMU_MASK"):
            events.append(Event("misc", n=param, word_index=i))
        else:
            op = DecodedOp()
            op.index = nops
            nops += 1
            op.word_index = i
            op.regs0 = dict(regs0)
            op.regs1 = dict(regs1)
            op.waits_before = pending_waits
            pending_waits = []
            if name == "NPU_OP_DMA_START":
                op.kind, op.sub = "dma", param
                events.append(Event("dma", op=op, word_index=i))
            else:
                op.kind = {"NPU_OP_CONV": "conv", "NPU_OP_DEPTHWISE": "depthwise", "NPU_OP_POOL": "pool", "NPU_OP_ELEMENTWISE": "elementwise"}[name]
                if op.kind == "pool":
                    if param not in isa.POOL_MODES:
                        raise DecodeError("bad pooling mode %d" % param)
                    op.sub = isa.POOL_MODES[param]
                elif op.kind == "elementwise":
                    if param not in isa.ELTWISE_MODES:
                        raise DecodeError("bad elementwise mode %d" % param)
                    op.sub = isa.ELTWISE_MODES[param]
                events.append(Event("op", op=op, word_index=i))
        i += 1
    info = {"stops": stops, "nops": nops, "reg_writes": reg_writes, "words": n, "trailing_waits": pending_waits}
    return events, info


# ------------------------------------------------------------------------------------------- field extraction
def addr40(op, name):
    p, v = op.regs1.get(name, (0, 0))
    return ((p & 0xFF) << 32) | v


def fm_view(op, which):
    """which in IFM / IFM2 / OFM -> FM"""
    r0 = op.regs0
    f = FM()
    pre = which
    f.region = r0.get(pre + "_REGION", 0) & 7
    f.bases = [addr40(op, "%s_BASE%d" % (pre, k)) for k in range(4)]
    f.height0 = r0.get(pre + "_HEIGHT0_M1", 0) + 1
    f.height1 = r0.get(pre + "_HEIGHT1_M1", 0) + 1
    f.width0 = r0.get(pre + "_WIDTH0_M1", 0) + 1
    f.stride_x, f.stride_y, f.stride_c = addr40(op, pre + "_STRIDE_X"), addr40(op, pre + "_STRIDE_Y"), addr40(op, pre + "_STRIDE_C")
    prec = r0.get(pre + "_PRECISION", 0)
    f.raw_precision = prec
    f.signed = bool(prec & 1)
    if which == "OFM":
        f.bits = 8 << ((prec >> 1) & 3)
        f.scale_mode = None
    else:
        f.bits = 8 << ((prec >> 2) & 3)
        f.scale_mode = (prec >> 8) & 3
    f.nhcwb16 = bool((prec >> 6) & 1)
    zp = r0.get(pre + "_ZERO_POINT", 0)
    f.zero_point = s16(zp) if f.signed else zp
    f.height = f.width = None
    if which == "OFM":
        f.height, f.width, f.depth = r0.get("OFM_HEIGHT_M1", 0) + 1, r0.get("OFM_WIDTH_M1", 0) + 1, r0.get("OFM_DEPTH_M1", 0) + 1
    else:
        f.depth = r0.get("IFM_DEPTH_M1", 0) + 1
    return f


class Fields:
    """all decoded fields of a kernel operation"""

    def __init__(self, op, ncores=1):
        r0 = op.regs0
        self.op = op
        self.kind, self.sub = op.kind, op.sub
        self.ifm = fm_view(op, "IFM")
        self.ofm = fm_view(op, "OFM")
        self.upscale = r0.get("IFM_UPSCALE", 0)
        self.pad = (r0.get("IFM_PAD_TOP", 0), r0.get("IFM_PAD_LEFT", 0), r0.get("IFM_PAD_BOTTOM", 0), r0.get("IFM_PAD_RIGHT", 0))
        ks = r0.get("KERNEL_STRIDE", 0)
        self.kernel_stride_raw = ks
        if self.kind == "elementwise":
            self.kh = self.kw = 1
            self.sx = self.sy = 1
            self.dx = self.dy = 1
            self.part_kernel = False
            self.pad = (0, 0, 0, 0)
        else:
            self.kh, self.kw = r0.get("KERNEL_HEIGHT_M1", 0) + 1, r0.get("KERNEL_WIDTH_M1", 0) + 1  # dilated sizes
            self.sx = 1 + (ks & 1) + (((ks >> 6) & 7) << 1)
            self.sy = 1 + ((ks >> 1) & 1) + (((ks >> 9) & 7) << 1)
            self.part_kernel = bool((ks >> 2) & 1)
            self.dx, self.dy = 1 + ((ks >> 3) & 1), 1 + ((ks >> 4) & 1)
        ofm_prec = r0.get("OFM_PRECISION", 0)
        self.global_scale = bool((ofm_prec >> 8) & 1)
        self.rounding = (ofm_prec >> 14) & 3
        act = r0.get("ACTIVATION", 0)
        self.act_fn = act & 0xFFF
        self.act_clip = (act >> 12) & 0xF
        self.act_min, self.act_max = s16(r0.get("ACTIVATION_MIN", 0)), s16(r0.get("ACTIVATION_MAX", 0))
        self.lut_index = self.act_fn - 16 if 16 <= self.act_fn < 24 else None
        self.blk = (r0.get("OFM_BLK_HEIGHT_M1", 0) + 1, r0.get("OFM_BLK_WIDTH_M1", 0) + 1, r0.get("OFM_BLK_DEPTH_M1", 0) + 1)
        self.ib_end, self.ib_start2, self.ab_start, self.acc_format = r0.get("IFM_IB_END", 0), r0.get("IFM2_IB_START", 0), r0.get("AB_START", 0), r0.get("ACC_FORMAT", 0)
        self.blockdep = r0.get("BLOCKDEP", 0)
        self.ncores = (r0.get("PARALLEL_MODE", 0) & 1) + 1
        self.weight_region, self.scale_region = r0.get("WEIGHT_REGION", 0) & 7, r0.get("SCALE_REGION", 0) & 7
        self.weights = [(addr40(op, "WEIGHT_BASE"), op.regs1.get("WEIGHT_LENGTH", (0, 0))[1])]
        self.scales = [(addr40(op, "SCALE_BASE"), op.regs1.get("SCALE_LENGTH", (0, 0))[1])]
        if self.ncores == 2:
            self.weights.append((addr40(op, "WEIGHT1_BASE"), op.regs1.get("WEIGHT1_LENGTH", (0, 0))[1]))
            self.scales.append((addr40(op, "SCALE1_BASE"), op.regs1.get("SCALE1_LENGTH", (0, 0))[1]))
        p, v = op.regs1.get("OFM_SCALE", (0, 0))
        self.ofm_scale, self.ofm_shift = v, p & 0x3F
        p, v = op.regs1.get("OPA_SCALE", (0, 0))
        self.opa_scale, self.opa_shift = v, p & 0x3F
        p, v = op.regs1.get("OPB_SCALE", (0, 0))
        self.opb_scale = v & 0xFFFF
        # IFM2
        self.ifm2 = None
        self.has_ifm2 = self.kind == "elementwise" and self.sub not in isa.UNARY_ELTWISE
        if self.has_ifm2:
            self.ifm2 = fm_view(op, "IFM2")
            b = r0.get("IFM2_BROADCAST", 0)
            self.bcast_h, self.bcast_w, self.bcast_c = bool(b & 1), bool(b & 2), bool(b & 4)
            self.reversed = bool(b & 0x40)
            self.scalar = bool(b & 0x80)
            sc = r0.get("IFM2_SCALAR", 0)
            self.scalar_value = s16(sc) if self.ifm2.signed else sc
        # implied IFM extent
        oh, ow, od = self.ofm.height, self.ofm.width, self.ofm.depth
        up = 2 if self.upscale in (1, 2) else 1
        if self.kind == "elementwise":
            self.ifm.height, self.ifm.width = oh, ow
            if self.ifm2 is not None:
                self.ifm2.height = 1 if self.bcast_h else oh
                self.ifm2.width = 1 if self.bcast_w else ow
                self.ifm2.depth = 1 if self.bcast_c else od
                if self.reversed:
                    # reversed operands: broadcast flags still describe IFM2
                    pass
        else:
            pt, pl, pb, pr = self.pad
            ih = (oh - 1) * self.sy + self.kh - pt - pb
            iw = (ow - 1) * self.sx + self.kw - pl - pr
            self.ifm.height, self.ifm.width = -(-ih // up), -(-iw // up)
        self.up = up


def dma_fields(op):
    r0 = op.regs0
    src_r, dst_r = r0.get("DMA0_SRC_REGION", 0), r0.get("DMA0_DST_REGION", 0)
    return dict(src_region=src_r & 7, src_internal=bool(src_r & 0x100), dst_region=dst_r & 7, dst_internal=bool(dst_r & 0x100),
                src=addr40(op, "DMA0_SRC"), dst=addr40(op, "DMA0_DST"), length=addr40(op, "DMA0_LEN"), mode=(src_r >> 9) & 3)
