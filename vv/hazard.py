"""Offline hazard checker over a decoded command stream (C04, DESIGN Appendix D).

Execution model: kernel operations and DMAs are issued in program order into two FIFO queues with bounded outstanding counts (kernels 2; DMA 1 on
U55, 2 on U65), the oldest retiring first; KERNEL_WAIT n / DMA_WAIT n leave at most n outstanding.  At each issue the new operation is tested against
every operation of the *other* queue that may still be outstanding (exact byte footprints incl. SHRAM).  Consecutive kernel operations overlap by
at most BLOCKDEP block jobs: job i (< B) of the current op may run with the last B - i jobs of the previous op.
"""
from . import decode, footprint, isa

MAX_KERNELS = 2


def max_dma(acc):
    return 2 if isa.ACCEL[acc]["u65"] else 1


def check_stream(events, acc, counters=None, blockdep_checks=True, max_findings=5):
    """-> list of findings dict(kind, clause, a, b, detail)"""
    c = counters if counters is not None else {}

    def inc(k, n=1):
        c[k] = c.get(k, 0) + n

    findings = []
    ok_, od_ = [], []  # outstanding kernels / dmas: list of (index, footprint, desc)
    ok_nw, od_nw = [], []  # the same queues if no wait had been emitted (capacity only): used to count conflicts that a wait guarded
    prev_kernel = None  # (Fields, op index)
    fps = {}
    for ev in events:
        if ev.kind == "kwait":
            n = ev.n
            inc("kernel_waits")
            if len(ok_) > n:
                ok_ = ok_[len(ok_) - n:] if n > 0 else []
            continue
        if ev.kind == "dwait":
            n = ev.n
            inc("dma_waits")
            if len(od_) > n:
                od_ = od_[len(od_) - n:] if n > 0 else []
            continue
        if ev.kind not in ("op", "dma"):
            continue
        op = ev.op
        if ev.kind == "dma":
            d = decode.dma_fields(op)
            fp = footprint.dma_footprint(d)
            desc = "dma#%d %s" % (op.index, {k: d[k] for k in ("src_region", "src", "dst_region", "dst", "length", "dst_internal")})
            inc("dma_ops")
            live = {j for (j, _, _) in ok_}
            for (j, fk, dk) in ok_:
                inc("cross_queue_pairs_examined")
                hit = footprint.conflict(fk, fp)
                if hit:
                    findings.append(dict(kind="dma-vs-outstanding-kernel", clause=hit[0], region=str(hit[1]), range=hit[2], earlier=dk, later=desc))
            for (j, fk, dk) in ok_nw:
                if j not in live and footprint.conflict(fk, fp):
                    inc("guarded_conflicts")
                    inc("guarded_by_kernel_wait")
                    if d["dst_internal"]:
                        inc("guarded_dma_to_shram")
            od_nw.append((op.index, fp, desc))
            if len(od_nw) > max_dma(acc):
                od_nw.pop(0)
            # count conflicts that *were* guarded: kernels that retired because of a wait just before this op
            od_.append((op.index, fp, desc))
            if len(od_) > max_dma(acc):
                od_.pop(0)
            if d["dst_internal"]:
                inc("dma_to_shram")
        else:
            F = decode.Fields(op)
            fp = footprint.op_footprint(F, acc)
            desc = "%s/%s#%d ofm r%d@%s" % (F.kind, F.sub, op.index, F.ofm.region, F.ofm.bases[0])
            inc("kernel_ops")
            live = {j for (j, _, _) in od_}
            for (j, fd, dd) in od_:
                inc("cross_queue_pairs_examined")
                hit = footprint.conflict(fd, fp)
                if hit:
                    findings.append(dict(kind="kernel-vs-outstanding-dma", clause=hit[0], region=str(hit[1]), range=hit[2], earlier=dd, later=desc))
            for (j, fd, dd) in od_nw:
                if j not in live and footprint.conflict(fd, fp):
                    inc("guarded_conflicts")
                    inc("guarded_by_dma_wait")
            ok_nw.append((op.index, fp, desc))
            if len(ok_nw) > MAX_KERNELS:
                ok_nw.pop(0)
            if blockdep_checks and prev_kernel is not None:
                pf, pfp = prev_kernel
                whole = raw_conflict(pfp, fp)
                if whole is not None:
                    inc("dependent_kernel_pairs")
                    B = F.blockdep
                    if B < 3:
                        inc("guarded_conflicts")
                        inc("guarded_by_blockdep")
                    # a table the previous op is still reading must not be overwritten by the current op's buffers
                    if B > 0 and "shram" in pfp.reads and "shram" in fp.writes:
                        h = footprint.intersects(pfp.reads["shram"], fp.writes["shram"])
                        if h:
                            findings.append(dict(kind="kernel-vs-previous-kernel", clause="WAR-shram-lut", region="shram", range=h, earlier="%s/%s" % (pf.kind, pf.sub), later=desc + " blockdep=%d" % B))
                    if B > 0:
                        r = check_blockdep(pf, F, acc, B, c)
                        if r:
                            findings.append(dict(kind="kernel-vs-previous-kernel", clause=r[0], region=str(r[1]), range=r[2], earlier="%s/%s" % (pf.kind, pf.sub), later=desc + " blockdep=%d jobs=%s" % (B, r[3]), cur="%s/%s" % (F.kind, F.sub), prev="%s/%s" % (pf.kind, pf.sub),
                                                 aliased_ifm_tiles=len(set(F.ifm.bases)) == 1 and (F.ifm.height0 < F.ifm.height or F.ifm.width0 < F.ifm.width)))
                    else:
                        inc("dependent_pairs_fully_serialised")
                else:
                    inc("independent_kernel_pairs")
            prev_kernel = (F, fp)
            ok_.append((op.index, fp, desc))
            if len(ok_) > MAX_KERNELS:
                ok_.pop(0)
        if len(findings) >= max_findings:
            break
    return findings


def check_blockdep(prev, cur, acc, B, c):
    """job i (< B) of cur may overlap the last B - i jobs of prev.  Returns (clause, region, range, (i, j)) or None."""
    cur_jobs, ncur = footprint.block_jobs(cur, acc, first=B)
    prev_jobs, nprev = footprint.block_jobs(prev, acc, last=B)
    prev_fps = []
    for box, dr, sk, wr in prev_jobs:
        f = footprint.op_footprint(prev, acc, ofm_box=box, ifm_depth_range=dr, subkernel=sk)
        if not wr:
            f.writes = {k: v for k, v in f.writes.items() if k == "shram"}
        f.writes.pop("shram", None)
        f.reads.pop("shram", None)
        prev_fps.append(f)
    for i, (box, dr, sk, wr) in enumerate(cur_jobs):
        f = footprint.op_footprint(cur, acc, ofm_box=box, ifm_depth_range=dr, subkernel=sk)
        if not wr:
            f.writes = {}
        f.writes.pop("shram", None)
        f.reads.pop("shram", None)
        # last (B - i) jobs of prev
        for jj in range(1, B - i + 1):
            if jj > len(prev_fps):
                break
            pfp = prev_fps[len(prev_fps) - jj]
            c["blockdep_job_pairs_examined"] = c.get("blockdep_job_pairs_examined", 0) + 1
            hit = raw_conflict(pfp, f)
            if hit:
                return hit[0], hit[1], hit[2], (i, jj - 1)
    return None


def raw_conflict(a, b):
    """true dependency only: b reads what a writes (the block pipeline is in order, so write order and read-before-later-write are preserved by construction)"""
    for region, iv in a.writes.items():
        if region in b.reads:
            hit = footprint.intersects(iv, b.reads[region])
            if hit:
                return "RAW", region, hit
    return None
