"""Independent expected-register model (C06): derives from an op *spec* (plain data, see opgen) the values the architectural
registers must hold when the NPU_OP command is issued, and compares them with decode.Fields."""
import math

import numpy as np

from . import decode, isa, opgen, refmath as R, shram
from fractions import Fraction

UPSCALE = {"NONE": 0, "NEAREST": 1, "TRANSPOSE": 2}
ROUNDING = {"TFL": 0, "TRUNCATE": 1, "NATURAL": 2}
INT16 = (-32768, 32767)


def dt_range(dtype):
    bits, signed = opgen.DT[dtype]
    return (-(1 << (bits - 1)), (1 << (bits - 1)) - 1) if signed else (0, (1 << bits) - 1)


def quantise(value, scale, zp):
    scale = 1.0 if scale is None else scale
    q = float(np.float32(value)) / float(np.float32(scale))
    q = float(np.float32(np.float32(value) / np.float32(scale)))
    r = math.floor(abs(q) + 0.5) * (1 if q >= 0 else -1)
    return (zp or 0) + int(r)


def cmp_fm(tag, spec, fm, diffs, with_shape=False, check_bases=4):
    sy, sx, sc = spec.eff_strides()
    bits, signed = opgen.DT[spec.dtype]
    exp = {"region": spec.region, "tiles": spec.tiles, "stride_y": sy, "stride_c": sc, "bits": bits, "signed": signed, "nhcwb16": spec.layout == "NHCWB16",
           "zero_point": spec.zp or 0}
    got = {"region": fm.region, "tiles": (fm.height0, fm.height1, fm.width0), "stride_y": fm.stride_y, "stride_c": fm.stride_c, "bits": fm.bits, "signed": fm.signed,
           "nhcwb16": fm.nhcwb16, "zero_point": fm.zero_point}
    exp["stride_x"], got["stride_x"] = sx, fm.stride_x
    for k in range(check_bases):
        exp["base%d" % k] = spec.addresses[k]
        got["base%d" % k] = fm.bases[k]
    if with_shape:
        exp["shape"] = tuple(spec.shape)
        got["shape"] = (fm.height, fm.width, fm.depth)
    for k, v in exp.items():
        if got[k] != v:
            diffs.append(("%s.%s" % (tag, k), v, got[k]))


def check_alignment(spec, acc, diffs):
    """hardware alignment rules on the *input* (an op that breaks them must have been rejected, not emitted)"""
    u65 = isa.ACCEL[acc]["u65"]
    bad = []
    if spec["kind"] == "dma":
        (sr, sa, sl), (dr, da, dl) = spec["src"], spec["dst"]
        if u65:
            if sr == opgen.MEM2MEM and sa % 16:
                bad.append("dma src internal unaligned")
            if dr == opgen.MEM2MEM and (da % 16 or sl % 16):
                bad.append("dma dst internal unaligned")
        elif sa % 16 or da % 16 or sl % 16:
            bad.append("dma unaligned on U55")
        return bad
    for tag in ("ifm", "ofm", "ifm2"):
        f = spec.get(tag)
        if f is None or (tag == "ifm2" and spec.get("scalar") is not None):
            continue
        sy, sx, sc = f.eff_strides()
        e = f.elem()
        if f.layout == "NHCWB16":
            if any(a % 16 for a in f.addresses) or sy % 16 or sc % 16:
                bad.append("%s NHCWB16 alignment" % tag)
        else:
            if any(a % e for a in f.addresses) or sy % e or sx % e:
                bad.append("%s NHWC alignment" % tag)
    for rg, a, ln in spec.get("weights") or []:
        if a % 16 or ln % 16:
            bad.append("weights alignment")
    for rg, a, ln in spec.get("biases") or []:
        if ln % 16:
            bad.append("scale length")
    return bad


def expected_eltwise_scaling(spec):
    """-> dict of expected (value-level) scaling registers or None when not modelled"""
    sub = spec["sub"]
    ifm, ifm2, ofm = spec["ifm"], spec.get("ifm2"), spec["ofm"]
    act = spec["act"]
    if sub in ("ADD", "SUB", "MUL"):
        s1 = ifm.scale
        s2 = ifm2.scale if ifm2 is not None else None
        so = ofm.scale
        if spec.get("rescale") is not None:
            return None
        if s1 is None or s2 is None or so is None:
            return {"ofm": (1, 0)} if sub == "MUL" else {"ofm": (1, 0), "opa": (1, 0), "opb": 1}
        s1, s2, so = float(s1), float(s2), float(so)
        if sub == "MUL":
            refs = set()
            flushed = []
            for prod in (s1 * s2 / so, float(np.float32(np.float32(np.float32(s1) * np.float32(s2)) / np.float32(so)))):
                m, e = R.quantize_multiplier(prod)
                refs.add(Fraction(m) * Fraction(2) ** (e - 31))
                if m == 0 and prod > 0:
                    flushed.append(Fraction(prod))  # below 2^-32 the reference flushes to zero; the hardware range reaches further down: the 2^-31 bound applies instead
            return {"ofm_values": refs, "ofm_within_bound_of": flushed}
        bits = opgen.DT[ifm.dtype][0]
        L = 20 if bits == 8 else 15
        if s1 == s2:
            return {"equal_scales": True, "s": s1, "so": so, "bits": bits}
        twice = 2.0 * max(s1, s2)
        mi, ei = R.quantize_multiplier(min(s1, s2) / twice)
        mo, eo = R.quantize_multiplier(twice / ((1 << L) * so))
        op_to_scale = 1 if s1 < s2 else 2
        if spec["reversed"]:
            op_to_scale = 3 - op_to_scale
        return {"opa_value": Fraction(mi) * Fraction(2) ** (ei - 31) * (1 << L), "ofm_value": Fraction(mo) * Fraction(2) ** (eo - 31) if mo else None,
                "op_to_scale": op_to_scale, "ofm_real": twice / ((1 << L) * so)}
    if sub in ("LRELU", "ABS"):
        if ofm.scale is None:
            return None
        m, e = R.quantize_multiplier(float(ofm.scale))
        return {"ofm_value": Fraction(m) * Fraction(2) ** (e - 31) if m else None, "ofm_real": float(ofm.scale)}
    return {"ofm": (1, 0)}


def compare_op(spec, blk, F, acc):
    """spec: op spec; blk: block config (h,w,d) given to the generator; F: decode.Fields. -> list of (field, expected, got)"""
    diffs = []
    kind = spec["kind"]
    if F.kind != kind or (spec.get("sub") is not None and F.sub != spec["sub"]):
        diffs.append(("op", (kind, spec.get("sub")), (F.kind, F.sub)))
        return diffs
    ifm, ofm = spec["ifm"], spec["ofm"]
    cmp_fm("ifm", ifm, F.ifm, diffs)
    if F.ifm.depth != ifm.shape[2]:
        diffs.append(("ifm.depth", ifm.shape[2], F.ifm.depth))
    cmp_fm("ofm", ofm, F.ofm, diffs, with_shape=True)
    if F.upscale != UPSCALE[spec["upscale"]]:
        diffs.append(("upscale", UPSCALE[spec["upscale"]], F.upscale))
    if kind != "elementwise":
        kh, kw, sy, sx, dy, dx = spec["kernel"]
        exp = dict(kh=dy * (kh - 1) + 1, kw=dx * (kw - 1) + 1, sy=sy, sx=sx, dy=dy, dx=dx, part_kernel=(kind == "conv" and spec["traversal"] == "PART_KERNEL_FIRST"),
                   pad=tuple(spec["pad"]))
        got = dict(kh=F.kh, kw=F.kw, sy=F.sy, sx=F.sx, dy=F.dy, dx=F.dx, part_kernel=F.part_kernel, pad=tuple(F.pad))
        for k, v in exp.items():
            if got[k] != v:
                diffs.append(("kernel." + k, v, got[k]))
        # implied IFM extent must equal the IFM shape given
        # (whether the extent the hardware reads matches the IFM box of the operation is C10's business: it is decided upstream of the generator)
    cores = isa.ACCEL[acc]["cores"]
    if isa.ACCEL[acc]["u65"] and F.ncores != cores:
        diffs.append(("parallel_mode", cores, F.ncores))
    if spec["weights"]:
        if F.weight_region != spec["weights"][0][0]:
            diffs.append(("weight_region", spec["weights"][0][0], F.weight_region))
        if F.scale_region != spec["biases"][0][0]:
            diffs.append(("scale_region", spec["biases"][0][0], F.scale_region))
        for core in range(cores):
            if core < len(spec["weights"]):
                ew = (spec["weights"][core][1], spec["weights"][core][2])
                eb = (spec["biases"][core][1], spec["biases"][core][2])
            else:
                ew = (spec["weights"][0][1], 0)
                eb = (spec["biases"][0][1], 0)
            if F.weights[core] != ew:
                diffs.append(("weights[%d]" % core, ew, F.weights[core]))
            if F.scales[core] != eb:
                diffs.append(("scales[%d]" % core, eb, F.scales[core]))
    # rounding / global scale
    if F.rounding != ROUNDING[spec["rounding"]]:
        diffs.append(("rounding", ROUNDING[spec["rounding"]], F.rounding))
    if kind == "pool":
        gs = spec["sub"] in ("AVERAGE", "REDUCE_SUM") and sum(spec["pad"]) == 0
    elif kind == "elementwise":
        gs = spec["sub"] in ("ADD", "SUB", "MUL", "LRELU", "ABS")
    else:
        gs = False
    if F.global_scale != gs:
        diffs.append(("global_scale", gs, F.global_scale))
    # activation
    act = spec["act"] or {"op": "NONE_OR_RELU", "min": None, "max": None}
    lo, hi = dt_range(ofm.dtype)
    qmin = lo if act["min"] is None else quantise(act["min"], ofm.scale, ofm.zp)
    qmax = hi if act["max"] is None else quantise(act["max"], ofm.scale, ofm.zp)
    qmin = max(qmin, INT16[0], lo)
    qmax = min(qmax, INT16[1], hi)
    clip = 0
    if act["op"] == "TABLE_LOOKUP":
        fn = 16 + act["lut"]
        if ofm.dtype == "INT32":
            clip = 3
            qmin, qmax = max(-128, qmin), min(127, qmax)
    else:
        fn = 0
    if (F.act_fn, F.act_clip) != (fn, clip):
        diffs.append(("activation", (fn, clip), (F.act_fn, F.act_clip)))
    if (F.act_min, F.act_max) != (qmin, qmax):
        diffs.append(("activation.minmax", (qmin, qmax), (F.act_min, F.act_max)))
    # block config + SHRAM layout (validity oracle, shared with C15)
    if tuple(F.blk) != tuple(blk):
        diffs.append(("block_config", tuple(blk), tuple(F.blk)))
    uses_lut = act["op"] == "TABLE_LOOKUP"
    ew_binary = kind == "elementwise" and spec.get("ifm2") is not None
    ew_scalar = kind == "elementwise" and spec.get("scalar") is not None
    kern = (F.kh, F.kw, F.sy, F.sx) if kind != "elementwise" else (1, 1, 1, 1)
    bits = opgen.DT[ifm.dtype][0]
    bad = shram.check_layout(acc, kind, spec.get("sub"), tuple(blk), kern, UPSCALE[spec["upscale"]], bits, ifm.shape[2],
                             bool(kind == "conv" and spec["traversal"] == "PART_KERNEL_FIRST"), uses_lut, F.ib_end, F.ib_start2, F.ab_start, F.acc_format,
                             ew_binary, ew_scalar, ofm_shape=ofm.shape)
    for clause, msg in bad:
        diffs.append(("shram." + clause, "valid layout", msg))
    # IFM2
    if kind == "elementwise" and spec.get("ifm2") is not None:
        i2 = spec["ifm2"]
        scalar = spec.get("scalar") is not None
        if not scalar:
            cmp_fm("ifm2", i2, F.ifm2, diffs)
        else:
            b2, s2 = opgen.DT[i2.dtype]
            if (F.ifm2.bits, F.ifm2.signed) != (b2, s2):
                diffs.append(("ifm2.precision", (b2, s2), (F.ifm2.bits, F.ifm2.signed)))
            if F.ifm2.zero_point != (i2.zp or 0):
                diffs.append(("ifm2.zero_point", i2.zp or 0, F.ifm2.zero_point))
            q = quantise(spec["scalar"], i2.scale, i2.zp)
            if F.scalar_value != q:
                diffs.append(("ifm2.scalar", q, F.scalar_value))
        eb = (False, False, False) if scalar else (ifm.shape[0] != i2.shape[0], ifm.shape[1] != i2.shape[1], ifm.shape[2] != i2.shape[2])
        gb = (F.bcast_h, F.bcast_w, F.bcast_c)
        if gb != eb or F.reversed != spec["reversed"] or F.scalar != scalar:
            diffs.append(("ifm2.broadcast", (eb, spec["reversed"], scalar), (gb, F.reversed, F.scalar)))
    # scaling
    if kind == "elementwise":
        es = expected_eltwise_scaling(spec)
        if es is not None:
            got_ofm = Fraction(F.ofm_scale, 1 << F.ofm_shift)
            if "ofm" in es:
                if (F.ofm_scale, F.ofm_shift) != es["ofm"]:
                    diffs.append(("ofm_scale", es["ofm"], (F.ofm_scale, F.ofm_shift)))
                if "opa" in es and ((F.opa_scale, F.opa_shift) != es["opa"] or F.opb_scale != es["opb"]):
                    diffs.append(("opa/opb_scale", (es["opa"], es["opb"]), ((F.opa_scale, F.opa_shift), F.opb_scale)))
            elif "ofm_values" in es:
                near = any(abs(got_ofm - real) / real <= Fraction(1, 1 << 31) for real in es.get("ofm_within_bound_of", []))
                if got_ofm not in es["ofm_values"] and not near:
                    diffs.append(("ofm_scale", [float(x) for x in es["ofm_values"]], float(got_ofm)))
            elif es.get("equal_scales"):
                pass  # simplified/advanced choice depends on the quantised value: checked at value level by C09
            else:
                if "opa_value" in es:
                    if Fraction(F.opa_scale, 1 << F.opa_shift) != es["opa_value"]:
                        diffs.append(("opa_scale", float(es["opa_value"]), F.opa_scale / 2.0 ** F.opa_shift))
                    if F.ifm.scale_mode != es["op_to_scale"]:
                        diffs.append(("ifm.scale_mode", es["op_to_scale"], F.ifm.scale_mode))
                ref = es.get("ofm_value")
                if ref is not None:
                    if got_ofm != ref:
                        diffs.append(("ofm_scale", float(ref), float(got_ofm)))
                else:
                    real = Fraction(es["ofm_real"])
                    if got_ofm != 0 and abs(got_ofm - real) / real > Fraction(1, 1 << 31):
                        diffs.append(("ofm_scale", float(real), float(got_ofm)))
    elif kind == "pool" and gs and spec["sub"] == "AVERAGE" and not spec.get("fused_quantize") and spec["act"] is None or False:
        pass
    return diffs


def compare_dma(spec, d):
    diffs = []
    (sr, sa, sl), (dr, da, dl) = spec["src"], spec["dst"]
    exp = dict(src_region=sr & 7, src_internal=bool(sr & 0x100), dst_region=dr & 7, dst_internal=bool(dr & 0x100), src=sa, dst=da, length=sl)
    for k, v in exp.items():
        if d[k] != v:
            diffs.append(("dma." + k, v, d[k]))
    return diffs
