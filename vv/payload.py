"""Driver payload frame parser (shared by C17 and the artefact loader). Frozen constants from the architecture description."""
import struct

EXPECT_CFG = {"Ethos_U55_32": 0x00001005, "Ethos_U55_64": 0x00001006, "Ethos_U55_128": 0x00001807, "Ethos_U55_256": 0x00003008,
              "Ethos_U65_256": 0x10003008, "Ethos_U65_512": 0x10006009}
ID_WORD = 0x10060000
ACC_CLI = {"ethos-u55-32": "Ethos_U55_32", "ethos-u55-64": "Ethos_U55_64", "ethos-u55-128": "Ethos_U55_128", "ethos-u55-256": "Ethos_U55_256",
           "ethos-u65-256": "Ethos_U65_256", "ethos-u65-512": "Ethos_U65_512"}


class FrameError(Exception):
    def __init__(self, clause, msg):
        super().__init__(msg)
        self.clause = clause


def parse_payload(data, acc_name=None):
    """-> list of command words; raises FrameError. acc_name None: the config word is not compared."""
    if len(data) % 4:
        raise FrameError("length-not-multiple-of-4", "payload length %d" % len(data))
    w = struct.unpack("<%dI" % (len(data) // 4), data)
    if not w or w[0] != 0x31504F43:
        raise FrameError("fourcc", "payload does not start with COP1: %s" % (hex(w[0]) if w else None))
    i = 1
    seen_config = False
    while True:
        if i >= len(w):
            raise FrameError("no-cmdstream-action", "ran off the end looking for the command stream action")
        tag, reserved, param = w[i] & 0xFF, (w[i] >> 8) & 0xFF, w[i] >> 16
        if tag == 1:  # config
            if i + 2 >= len(w):
                raise FrameError("config-truncated", "config action truncated")
            if acc_name is not None and w[i + 1] != EXPECT_CFG[acc_name]:
                raise FrameError("config-word", "config word %#010x, expected %#010x for %s" % (w[i + 1], EXPECT_CFG[acc_name], acc_name))
            if w[i + 2] != ID_WORD:
                raise FrameError("id-word", "id word %#010x, expected %#010x" % (w[i + 2], ID_WORD))
            if param != 0x10 or reserved != 0:
                raise FrameError("config-tag", "config tag param %#x reserved %#x" % (param, reserved))
            seen_config = True
            i += 3
        elif tag == 5:  # NOP
            if w[i] != 5:
                raise FrameError("nop-nonzero", "NOP with payload %#x" % w[i])
            i += 1
        elif tag == 2:  # command stream
            if not seen_config:
                raise FrameError("config-missing", "command stream action before any config action")
            n = param | (reserved << 16)
            i += 1
            if (i * 4) % 16:
                raise FrameError("cmd-words-not-16-byte-aligned", "first command word at byte offset %d" % (i * 4))
            if len(w) - i != n:
                raise FrameError("length-field", "declared %d command words, %d follow" % (n, len(w) - i))
            return list(w[i:])
        else:
            raise FrameError("unknown-action", "unknown driver action %#x at word %d" % (w[i], i))
