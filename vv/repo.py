"""Locate the repository under test, rebuild its C codec from the working tree, and import it.

Every check (and every worker subprocess) calls `setup()` before importing anything from `ethosu`.
VERIF_REPO may redirect to a scratch copy for seeded-fault runs (default /repo).
"""
import hashlib
import importlib
import importlib.util
import os
import subprocess
import sys
import sysconfig

VERIF = os.path.dirname(os.path.dirname(os.path.abspath(__file__)))
REPO = os.path.abspath(os.environ.get("VERIF_REPO", "/repo"))
BUILD = os.path.join(VERIF, ".build")
GUARD = "ETHOSU_VELA_VERIF"

_CODEC_SRC = ["mlw_encode.c", "mlw_decode.c", "mlw_codecmodule.c"]


def _hash_files(paths, extra=""):
    h = hashlib.sha256(extra.encode())
    for p in paths:
        with open(p, "rb") as f:
            h.update(f.read())
    return h.hexdigest()[:16]


def codec_sources():
    d = os.path.join(REPO, "ethosu", "mlw_codec")
    return d, [os.path.join(d, s) for s in _CODEC_SRC]


def build_codec():
    """Build ethosu.mlw_codec from REPO's C sources with the flags setup.py build_ext would use. Cached by hash."""
    import numpy as np

    d, srcs = codec_sources()
    hdrs = [os.path.join(d, h) for h in sorted(os.listdir(d)) if h.endswith(".h")]
    cflags = sysconfig.get_config_var("CFLAGS") or "-O2 -DNDEBUG"
    key = _hash_files(srcs + hdrs, cflags + sys.version)
    outdir = os.path.join(BUILD, "codec-" + key)
    so = os.path.join(outdir, "mlw_codec" + sysconfig.get_config_var("EXT_SUFFIX"))
    if os.path.exists(so):
        return so
    os.makedirs(outdir, exist_ok=True)
    tmp = so + ".%d.tmp" % os.getpid()
    cmd = (
        ["gcc", "-shared", "-fPIC"]
        + cflags.split()
        + ["-DNPY_NO_DEPRECATED_API=NPY_1_9_API_VERSION", "-w"]
        + ["-I" + sysconfig.get_config_var("INCLUDEPY"), "-I" + np.get_include(), "-I" + d]
        + srcs
        + ["-o", tmp]
    )
    r = subprocess.run(cmd, capture_output=True, text=True)
    if r.returncode != 0:
        raise RuntimeError("codec build failed:\n" + r.stderr[-4000:])
    os.replace(tmp, so)
    return so


_done = False


def setup(load_codec=True):
    """Make `import ethosu...` resolve to REPO's working tree with a freshly built codec."""
    global _done
    if _done:
        return
    os.environ.setdefault(GUARD, "1")
    if REPO in sys.path:
        sys.path.remove(REPO)
    sys.path.insert(0, REPO)
    if VERIF not in sys.path:
        sys.path.insert(1, VERIF)
    for m in list(sys.modules):
        if m == "ethosu" or m.startswith("ethosu."):
            del sys.modules[m]
    import ethosu  # namespace package

    # make sure REPO wins over the editable finder for the namespace path
    paths = [os.path.join(REPO, "ethosu")]
    try:
        ethosu.__path__ = paths
    except Exception:
        pass
    if load_codec:
        so = build_codec()
        spec = importlib.util.spec_from_file_location("ethosu.mlw_codec", so)
        mod = importlib.util.module_from_spec(spec)
        spec.loader.exec_module(mod)
        sys.modules["ethosu.mlw_codec"] = mod
        ethosu.mlw_codec = mod
    import ethosu.vela  # noqa

    f = os.path.abspath(ethosu.vela.__file__)
    assert f.startswith(REPO + os.sep), (f, REPO)
    _done = True


def child_env(extra=None):
    env = dict(os.environ)
    env["PYTHONPATH"] = VERIF + os.pathsep + REPO
    env.setdefault("PYTHONHASHSEED", "0")
    env[GUARD] = "1"
    env["VERIF_REPO"] = REPO
    env["PYTHONDONTWRITEBYTECODE"] = "1"
    for k in ("OMP_NUM_THREADS", "OPENBLAS_NUM_THREADS", "MKL_NUM_THREADS"):
        env[k] = "1"
    if extra:
        env.update(extra)
    return env


def repo_head():
    try:
        return subprocess.run(["git", "-C", REPO, "rev-parse", "HEAD"], capture_output=True, text=True).stdout.strip()
    except Exception:
        return "?"
