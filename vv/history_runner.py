"""Run a history of compilations in ONE process (C14).  spec: {"steps": [{"entry": "main"|"convert"|"convert_bytes", "model": path, "argv": [...], "outdir": dir, "tag": str}],
"between": "random"|None}.  Writes result JSON: per step {ok, error, out_path, csv_path}."""
import contextlib
import io
import json
import os
import random
import sys
import traceback

sys.path.insert(0, os.path.dirname(os.path.dirname(os.path.abspath(__file__))))
from vv import repo  # noqa: E402

repo.setup()
import ethosu.vela.vela as vela  # noqa: E402


BUFFERS = {}


def main():
    spec = json.load(open(sys.argv[1]))
    results = []
    for st in spec["steps"]:
        r = {"tag": st.get("tag"), "entry": st["entry"], "ok": False, "error": None, "out_path": None, "csv_path": None}
        os.makedirs(st["outdir"], exist_ok=True)
        buf = io.StringIO()
        cwd = os.getcwd()
        try:
            with contextlib.redirect_stdout(buf), contextlib.redirect_stderr(buf):
                if st["entry"] == "main":
                    rc = vela.main(list(st["argv"]))
                    r["rc"] = rc
                    base = os.path.join(st["outdir"], os.path.splitext(os.path.basename(st["model"]))[0])
                    r["out_path"] = base + "_vela.tflite"
                    cs = [f for f in os.listdir(st["outdir"]) if f.endswith(".csv") and "_summary_" in f]
                    r["csv_path"] = os.path.join(st["outdir"], cs[0]) if cs else None
                    r["ok"] = rc == 0 and os.path.exists(r["out_path"])
                elif st["entry"] == "convert":
                    os.chdir(st["outdir"])  # convert() writes to ./output
                    p = vela.convert(st["model"])
                    r["out_path"] = os.path.join(st["outdir"], p)
                    r["ok"] = os.path.exists(r["out_path"])
                else:
                    os.chdir(st["outdir"])
                    orig = open(st["model"], "rb").read()
                    if st["entry"] == "convert_bytes_same_buffer":
                        # the caller keeps one buffer per model and hands the very same object to every compilation of that model
                        data = BUFFERS.setdefault(st["model"], bytearray(orig))
                    elif st["entry"] == "convert_bytes_memoryview":
                        data = memoryview(orig)  # read-only view
                    else:
                        data = bytearray(orig)  # the delegate passes a bytearray / memoryview
                    mv = vela.convert_bytes(data)
                    r["input_modified"] = bytes(data) != orig
                    r["out_path"] = os.path.join(st["outdir"], "convert_bytes.tflite")
                    with open(r["out_path"], "wb") as f:
                        f.write(bytes(mv))
                    r["ok"] = True
        except SystemExit as e:
            r["error"] = "SystemExit(%s)" % e.code
        except BaseException as e:
            tb = traceback.extract_tb(e.__traceback__)
            inner = [f for f in tb if "/ethosu/" in f.filename]
            r["error"] = "%s: %s" % (type(e).__name__, str(e)[:200])
            r["mech"] = "%s@%s:%s" % (type(e).__name__, os.path.basename(inner[-1].filename) if inner else "?", inner[-1].name if inner else "?")
        finally:
            os.chdir(cwd)
        r["stdout_tail"] = buf.getvalue()[-300:]
        results.append(r)
        if spec.get("between") == "random":
            random.seed(12345 + len(results))
            [random.random() for _ in range(17)]
    json.dump(results, open(sys.argv[2], "w"))


if __name__ == "__main__":
    main()
