"""Independent SHRAM arithmetic (C15 oracle): validity of a block configuration and its shared-buffer layout for an accelerator.
Written from the frozen per-accelerator tables in isa.py; 'large enough' is a >= test so the compiler may reserve more."""
from . import isa

ACC_BITS = {0: 32, 1: 40, 2: 16}


def rup(a, b):
    return -(-a // b) * b


def limits(acc, uses_lut):
    a = isa.ACCEL[acc]
    banks = a["banks"]
    reserved_unused = 2 if banks > 16 else 0
    total = banks - reserved_unused
    lut_banks = 2 if (uses_lut and reserved_unused == 0) else 0
    return total, total - lut_banks  # (total usable, end of IFM/accumulator space)


def min_ifm_block(acc, kind, blk, kernel, upscale, ifm_bits, ifm_depth, part_kernel):
    """blk = (h, w, d) OFM block; kernel = (dil_kh, dil_kw, sy, sx). -> (h, w, d) minimum IFM block"""
    a = isa.ACCEL[acc]
    uw, uh, ud = a["ofm_ublock"]
    bh, bw, bd = blk
    kh, kw, sy, sx = kernel
    up = 2 if upscale in (1, 2) else 1
    nearest = 1 if upscale == 1 else 0
    h = -(-((bh - 1) * sy + min(kh, 8) + nearest) // up)
    w = -(-((bw - 1) * sx + min(kw, 8) + nearest) // up)
    h, w = rup(h, uh), rup(w, uw)
    if kind == "conv" or kind == "reduce_sum":
        if ifm_bits == 16:
            d = rup(min(ifm_depth, 16), 4)
        else:
            d = rup(min(ifm_depth, 16 if part_kernel else 32), a["ifm_ublock"][2])
    else:
        d = bd
    return h, w, d


def granule(acc, what, bits):
    g = isa.ACCEL[acc]["granules"]
    # frozen granule table order: IFM8, IFM16, IFM8_Elementwise, IFM16_Elementwise, IFM32, Acc16, Acc32, Acc40
    if what == "ifm":
        return {8: g[0], 16: g[1], 32: g[4]}[bits]
    if what == "ifm_ew":
        return {8: g[2], 16: g[3], 32: g[4]}[bits]
    return {16: g[5], 32: g[6], 40: g[7]}[bits]


def banks_for(bytes_, gran):
    return rup(2 * (-(-bytes_ // isa.SHRAM_BANK_SIZE)), gran)


def check_layout(acc, kind, sub, blk, kernel, upscale, ifm_bits, ifm_depth, part_kernel, uses_lut, ib_end, ib_start2, ab_start, acc_format, ew_binary, ew_scalar, ofm_shape=None):
    """-> list of (clause, message); empty = valid"""
    bad = []
    a = isa.ACCEL[acc]
    uw, uh, ud = a["ofm_ublock"]
    bh, bw, bd = blk
    mh, mw, md = isa.MAX_BLOCK
    if not (bh > 0 and bw > 0 and bd > 0):
        return [("block-not-positive", "block %s" % (blk,))]
    # the 1-D optimisation legitimately programs block height 1 on 2-row micro-block accelerators when the OFM height and kernel height are 1
    h_ok = bh % uh == 0 or (uh == 2 and bh == 1 and ofm_shape is not None and ofm_shape[0] == 1 and (kernel[0] == 1))
    if not h_ok or bw % uw or bd % ud:
        bad.append(("block-not-multiple-of-microblock", "block %s micro-block (h,w,d)=%s" % (blk, (uh, uw, ud))))
    if bh > mh or bw > mw or bd > md:
        bad.append(("block-exceeds-maximum", "block %s max %s" % (blk, isa.MAX_BLOCK)))
    total, end = limits(acc, uses_lut)
    start = isa.SHRAM_OUTPUT_BANKS
    if uh == 2 and ofm_shape is not None and ofm_shape[0] == 1 and kernel[0] == 1:
        # Conv1D case on 2-row micro-block accelerators: only one OFM row exists, buffers are sized for block height 1
        bh = 1
        blk = (1, bw, bd)
    if acc_format not in ACC_BITS:
        bad.append(("bad-acc-format", "ACC_FORMAT %d" % acc_format))
        return bad
    if kind == "elementwise":
        ih, iw, idp = bh, bw, bd
        ifm_bytes = iw * ih * rup(idp * ifm_bits // 8, 8)
        need = banks_for(ifm_bytes, granule(acc, "ifm_ew", ifm_bits))
        if not (start <= ib_end <= end):
            bad.append(("partition-out-of-range", "IB_END %d outside [%d, %d]" % (ib_end, start, end)))
        if ab_start > total or ab_start < ib_end:
            bad.append(("partitions-out-of-order", "AB_START %d vs IB_END %d (total %d)" % (ab_start, ib_end, total)))
        if uses_lut and max(ib_end, ab_start) > end:
            bad.append(("partition-covers-lut", "IB_END %d / AB_START %d beyond %d with a table in use" % (ib_end, ab_start, end)))
        if ew_binary and not ew_scalar:
            if not (start <= ib_start2 <= ib_end):
                bad.append(("partitions-out-of-order", "IFM2_IB_START %d not in [%d, IB_END %d]" % (ib_start2, start, ib_end)))
            if ib_start2 - start < need:
                bad.append(("ifm-partition-too-small", "IFM banks [%d,%d) < %d needed for block %s" % (start, ib_start2, need, blk)))
            if ib_end - ib_start2 < need:
                bad.append(("ifm2-partition-too-small", "IFM2 banks [%d,%d) < %d needed for block %s" % (ib_start2, ib_end, need, blk)))
        else:
            if ib_end - start < need:
                bad.append(("ifm-partition-too-small", "IFM banks [%d,%d) < %d needed for block %s" % (start, ib_end, need, blk)))
        return bad
    ih, iw, idp = min_ifm_block(acc, "reduce_sum" if (kind == "pool" and sub == "REDUCE_SUM") else kind, blk, kernel, upscale, ifm_bits, ifm_depth, part_kernel)
    ifm_bytes = iw * ih * rup(idp * ifm_bits // 8, 8)
    need_ifm = banks_for(ifm_bytes, granule(acc, "ifm", ifm_bits))
    abits = ACC_BITS[acc_format]
    acc_bytes = (bw * bh * rup(bd, 8) * abits) // 8
    need_acc = banks_for(acc_bytes, granule(acc, "acc", abits))
    if not (start <= ib_end <= ab_start <= end):
        bad.append(("partitions-out-of-order", "expected %d <= IB_END %d <= AB_START %d <= %d" % (start, ib_end, ab_start, end)))
    if ab_start > total or (uses_lut and ab_start > end):
        bad.append(("partition-covers-lut", "AB_START %d beyond %d" % (ab_start, end)))
    if ib_end - start < need_ifm:
        bad.append(("ifm-partition-too-small", "IFM banks [%d,%d) < %d needed for IFM block %s (OFM block %s)" % (start, ib_end, need_ifm, (ih, iw, idp), blk)))
    if end - ab_start < need_acc:
        bad.append(("accumulator-partition-too-small", "accumulator banks [%d,%d) < %d needed for block %s at %d bits" % (ab_start, end, need_acc, blk, abits)))
    return bad
