"""Reference MLW stream decoder (Python port of the documented bitstream format, frozen) with coding-mode statistics,
and an independent generator of the hardware block-traversal order (reorder_ref)."""
import numpy as np

ZDIV_DISABLE = 6
ZDIV_EOS = 7
WDIV_UNCOMPRESSED = 7


class MlwError(Exception):
    pass


class _Bits:
    __slots__ = ("buf", "pos", "n")

    def __init__(self, buf):
        self.buf = bytes(buf)
        self.pos = 0
        self.n = len(self.buf) * 8

    def get(self, ln):
        if ln <= 0:
            return 0
        if self.pos + ln > self.n:
            raise MlwError("bitstream underrun at bit %d (+%d) of %d" % (self.pos, ln, self.n))
        v = 0
        p = self.pos
        buf = self.buf
        for i in range(ln):
            v |= ((buf[p >> 3] >> (p & 7)) & 1) << i
            p += 1
        self.pos = p
        return v


def decode(data, stats=None):
    """-> list of decoded weights. stats (dict) is updated with coding-mode usage."""
    bb = _Bits(data)
    size = len(data)
    out = []
    first = True
    palette = [0] * 512
    palsize = palbits = direct_offset = 0
    z_prev_grc_div = 0
    st = stats if stats is not None else {}

    def inc(k, n=1):
        st[k] = st.get(k, 0) + n

    while True:
        z_grc_div = bb.get(3)
        hit_end = False
        while z_grc_div == ZDIV_EOS:
            bb.get((8 - (bb.pos & 7)) & 7)
            first = True
            if bb.pos // 8 == size:
                hit_end = True
                break
            z_grc_div = bb.get(3)
        if hit_end or bb.pos // 8 == size:
            break
        if not (z_grc_div < 4 or z_grc_div == ZDIV_DISABLE):
            raise MlwError("bad ZDIV %d" % z_grc_div)
        use_zero_run = z_grc_div != ZDIV_DISABLE
        nvalues = bb.get(15) + 1
        w_grc_div = bb.get(3)
        w_grc_trunc = bb.get(1)
        new_palette = bb.get(1)
        inc("slices")
        if first:
            if not new_palette:
                raise MlwError("first slice without palette/direct setup")
            first = False
        else:
            inc("slices_after_first")
        if not new_palette:
            if use_zero_run != (z_prev_grc_div != ZDIV_DISABLE):
                raise MlwError("zero-run mode changed without new palette")
            inc("palette_reused")
        z_prev_grc_div = z_grc_div
        if new_palette:
            direct_offset = bb.get(5)
            palsize = bb.get(5)
            if palsize > 0:
                palsize += 1
            palbits = bb.get(3) + 2
            for i in range(palsize):
                palette[i] = bb.get(palbits)
            inc("palette" if palsize > 0 else "direct")
            if palsize > 0 and len(st.get("palsizes", ())) < 64:
                st.setdefault("palsizes", set()).add(palsize)
            if direct_offset:
                inc("direct_offset_nonzero")
        if w_grc_div == WDIV_UNCOMPRESSED:
            w_uncompressed = True
            if palsize > 0:
                ub = 0
                while (1 << ub) < palsize:
                    ub += 1
            else:
                ub = palbits
            w_grc_div = ub
            inc("uncompressed")
        else:
            w_uncompressed = False
            if w_grc_div >= 6:
                raise MlwError("bad WDIV %d" % w_grc_div)
            inc("wdiv%d" % w_grc_div)
        if w_grc_trunc:
            inc("wtrunc")
        if use_zero_run:
            inc("zero_runs")
            inc("zdiv%d" % z_grc_div)
        z_nvalues = nvalues + (1 if new_palette else 0)
        w_value = [0] * nvalues
        z_value = [0] * z_nvalues
        w_pos = z_pos = w_prev_pos = z_prev_pos = 0
        w_carry = z_carry = 0
        w_q, z_q = [], []
        w_prev_enable = z_prev_enable = False
        w_prev_q, z_prev_q = [], []
        z_unary_len = 12 if z_grc_div < 3 else 8
        while True:
            balance = (w_pos - z_pos) if use_zero_run else 0
            w_enable = (balance < 8 or not use_zero_run) and w_pos < nvalues
            z_enable = balance >= 0 and use_zero_run and z_pos < z_nvalues
            w_unary0 = 0
            if w_enable:
                w_unary0 = bb.get(12) if not w_uncompressed else 0
            if z_enable:
                z_unary = bb.get(z_unary_len)
                z_q = []
                cnt = z_carry
                for i in range(z_unary_len):
                    if z_unary & (1 << i):
                        cnt += 1
                    else:
                        z_q.append(cnt)
                        cnt = 0
                z_carry = cnt
                z_pos += len(z_q)
            if w_enable:
                max_symbols = 8 if (w_uncompressed and w_grc_div > 5) else 12
                ln = 0
                for i in range(max_symbols):
                    if w_unary0 & (1 << i):
                        ln += 1
                w_unary1 = bb.get(ln)
                w_q = []
                cnt = w_carry
                for i in range(max_symbols):
                    code = 0
                    if w_unary0 & (1 << i):
                        code += 1
                        if w_unary1 & 1:
                            code += 1
                        w_unary1 >>= 1
                    cnt += code
                    if code < 2 or w_grc_trunc:
                        w_q.append(cnt)
                        cnt = 0
                w_carry = cnt
                w_pos += len(w_q)
            if w_prev_enable:
                for q in w_prev_q:
                    if w_prev_pos >= nvalues:
                        break
                    w_value[w_prev_pos] = (q << w_grc_div) + bb.get(w_grc_div)
                    w_prev_pos += 1
            if z_prev_enable:
                for q in z_prev_q:
                    if z_prev_pos >= z_nvalues:
                        break
                    z_value[z_prev_pos] = (q << z_grc_div) + bb.get(z_grc_div)
                    z_prev_pos += 1
            w_prev_enable, w_prev_q = w_enable, (list(w_q) if w_enable else [])
            z_prev_enable, z_prev_q = z_enable, (list(z_q) if z_enable else [])
            if not (w_prev_enable or z_prev_enable):
                break
        if new_palette and use_zero_run:
            out.extend([0] * z_value[0])
        off = 1 if new_palette else 0
        for i in range(nvalues):
            wv = w_value[i]
            if wv >= 512:
                raise MlwError("weight index %d >= 512" % wv)
            val = palette[wv] if wv < palsize else wv - palsize + direct_offset
            mag = val >> 1
            out.append(-mag if (val & 1) else mag)
            if use_zero_run:
                z = z_value[i + off]
                if z:
                    out.extend([0] * z)
    return out


def reorder_ref(w, ifm_ub, ofm_ub, ofm_block_depth, is_dw, is_pk, ifm_bits, dec_h, dec_w):
    """w: ndarray OHWI. Returns the list of weights in hardware block-traversal order (zeros where the hardware expects padding)."""
    ofm_depth, kh, kw, ifm_depth = w.shape
    out = []
    ifm_block_depth = 16 if (is_pk or ifm_bits == 16) else 32
    for ofm_block_z in range(0, ofm_depth, ofm_block_depth):
        cob = min(ofm_block_depth, ofm_depth - ofm_block_z)
        for ifm_block_z in range(0, (1 if is_dw else ifm_depth), ifm_block_depth):
            if is_dw:
                cib = ifm_ub
            else:
                cib = min(ifm_block_depth, ifm_depth - ifm_block_z) if is_pk else ifm_block_depth
            for sky in range(0, kh, dec_h):
                sh = min(kh - sky, dec_h)
                for skx in range(0, kw, dec_w):
                    sw = min(kw - skx, dec_w)
                    se = sw * sh
                    if is_pk:
                        if ifm_bits == 16 and se % 2:
                            se = -(-se // 2) * 2
                        elif ifm_bits == 8 and se % 4:
                            se = -(-se // 4) * 4
                    elif is_dw:
                        se = -(-se // 4) * 4
                    outer = cib if is_pk else 1
                    inner = 1 if is_pk else cib
                    for uo in range(0, outer, ifm_ub):
                        for ofm_ublk in range(0, cob, ofm_ub):
                            for el in range(se):
                                kx = el % sw
                                ky = el // sw
                                for ui in range(0, inner, ifm_ub):
                                    for oz in range(ofm_ub):
                                        for iz in range(1 if is_dw else ifm_ub):
                                            ifm_z = ifm_block_z + ui + uo + iz
                                            ofm_z = ofm_block_z + ofm_ublk + oz
                                            if ifm_z < ifm_depth and ofm_z < ofm_depth and ky < sh:
                                                out.append(int(w[ofm_z, sky + ky, skx + kx, ifm_z]))
                                            else:
                                                out.append(0)
    return out


def reorder_index_ref(shape, ifm_ub, ofm_ub, ofm_block_depth, is_dw, is_pk, ifm_bits, dec_h, dec_w):
    """Same traversal, returning for each stream position the (o,h,w,i) source index or None for padding (used by npuexec)."""
    ofm_depth, kh, kw, ifm_depth = shape
    idx = np.arange(ofm_depth * kh * kw * ifm_depth, dtype=np.int64).reshape(shape) + 1
    flat = reorder_ref(idx, ifm_ub, ofm_ub, ofm_block_depth, is_dw, is_pk, ifm_bits, dec_h, dec_w)
    return np.asarray(flat, dtype=np.int64) - 1  # -1 = padding
