"""True-CLI launcher: identical to the `vela` console script (sys.exit(main())), but with REPO's working tree first on the
path and the codec rebuilt from REPO's C sources (the prebuilt .so in /repo is untracked and never trusted)."""
import os
import sys

sys.path.insert(0, os.path.dirname(os.path.dirname(os.path.abspath(__file__))))
from vv import repo  # noqa: E402

repo.setup()
from ethosu.vela.vela import main  # noqa: E402

if __name__ == "__main__":
    sys.argv[0] = "vela"
    sys.exit(main())
