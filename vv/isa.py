"""Frozen Ethos-U55/U65 command table (extracted once at the pinned commit; never imported from the repository at run time)."""

CMD0 = {
    0x000: "NPU_OP_STOP", 0x001: "NPU_OP_IRQ", 0x002: "NPU_OP_CONV", 0x003: "NPU_OP_DEPTHWISE", 0x005: "NPU_OP_POOL", 0x006: "NPU_OP_ELEMENTWISE",
    0x010: "NPU_OP_DMA_START", 0x011: "NPU_OP_DMA_WAIT", 0x012: "NPU_OP_KERNEL_WAIT", 0x013: "NPU_OP_PMU_MASK",
    0x100: "IFM_PAD_TOP", 0x101: "IFM_PAD_LEFT", 0x102: "IFM_PAD_RIGHT", 0x103: "IFM_PAD_BOTTOM", 0x104: "IFM_DEPTH_M1", 0x105: "IFM_PRECISION",
    0x107: "IFM_UPSCALE", 0x109: "IFM_ZERO_POINT", 0x10A: "IFM_WIDTH0_M1", 0x10B: "IFM_HEIGHT0_M1", 0x10C: "IFM_HEIGHT1_M1", 0x10D: "IFM_IB_END",
    0x10F: "IFM_REGION", 0x111: "OFM_WIDTH_M1", 0x112: "OFM_HEIGHT_M1", 0x113: "OFM_DEPTH_M1", 0x114: "OFM_PRECISION", 0x115: "OFM_BLK_WIDTH_M1",
    0x116: "OFM_BLK_HEIGHT_M1", 0x117: "OFM_BLK_DEPTH_M1", 0x118: "OFM_ZERO_POINT", 0x11A: "OFM_WIDTH0_M1", 0x11B: "OFM_HEIGHT0_M1",
    0x11C: "OFM_HEIGHT1_M1", 0x11F: "OFM_REGION", 0x120: "KERNEL_WIDTH_M1", 0x121: "KERNEL_HEIGHT_M1", 0x122: "KERNEL_STRIDE", 0x123: "PARALLEL_MODE",
    0x124: "ACC_FORMAT", 0x125: "ACTIVATION", 0x126: "ACTIVATION_MIN", 0x127: "ACTIVATION_MAX", 0x128: "WEIGHT_REGION", 0x129: "SCALE_REGION",
    0x12D: "AB_START", 0x12F: "BLOCKDEP", 0x130: "DMA0_SRC_REGION", 0x131: "DMA0_DST_REGION", 0x132: "DMA0_SIZE0", 0x133: "DMA0_SIZE1",
    0x180: "IFM2_BROADCAST", 0x181: "IFM2_SCALAR", 0x185: "IFM2_PRECISION", 0x189: "IFM2_ZERO_POINT", 0x18A: "IFM2_WIDTH0_M1", 0x18B: "IFM2_HEIGHT0_M1",
    0x18C: "IFM2_HEIGHT1_M1", 0x18D: "IFM2_IB_START", 0x18F: "IFM2_REGION",
}
CMD1 = {
    0x000: "IFM_BASE0", 0x001: "IFM_BASE1", 0x002: "IFM_BASE2", 0x003: "IFM_BASE3", 0x004: "IFM_STRIDE_X", 0x005: "IFM_STRIDE_Y", 0x006: "IFM_STRIDE_C",
    0x010: "OFM_BASE0", 0x011: "OFM_BASE1", 0x012: "OFM_BASE2", 0x013: "OFM_BASE3", 0x014: "OFM_STRIDE_X", 0x015: "OFM_STRIDE_Y", 0x016: "OFM_STRIDE_C",
    0x020: "WEIGHT_BASE", 0x021: "WEIGHT_LENGTH", 0x022: "SCALE_BASE", 0x023: "SCALE_LENGTH", 0x024: "OFM_SCALE", 0x025: "OPA_SCALE", 0x026: "OPB_SCALE",
    0x030: "DMA0_SRC", 0x031: "DMA0_DST", 0x032: "DMA0_LEN", 0x033: "DMA0_SKIP0", 0x034: "DMA0_SKIP1",
    0x080: "IFM2_BASE0", 0x081: "IFM2_BASE1", 0x082: "IFM2_BASE2", 0x083: "IFM2_BASE3", 0x084: "IFM2_STRIDE_X", 0x085: "IFM2_STRIDE_Y", 0x086: "IFM2_STRIDE_C",
    0x090: "WEIGHT1_BASE", 0x091: "WEIGHT1_LENGTH", 0x092: "SCALE1_BASE", 0x093: "SCALE1_LENGTH",
}
# cmd1 registers whose 16-bit parameter carries address bits 39:32
ADDR40 = {"IFM_BASE0", "IFM_BASE1", "IFM_BASE2", "IFM_BASE3", "IFM_STRIDE_X", "IFM_STRIDE_Y", "IFM_STRIDE_C", "OFM_BASE0", "OFM_BASE1", "OFM_BASE2", "OFM_BASE3",
          "OFM_STRIDE_X", "OFM_STRIDE_Y", "OFM_STRIDE_C", "WEIGHT_BASE", "SCALE_BASE", "DMA0_SRC", "DMA0_DST", "DMA0_LEN", "IFM2_BASE0", "IFM2_BASE1", "IFM2_BASE2",
          "IFM2_BASE3", "IFM2_STRIDE_X", "IFM2_STRIDE_Y", "IFM2_STRIDE_C", "WEIGHT1_BASE", "SCALE1_BASE"}

POOL_MODES = {0: "MAX", 1: "AVERAGE", 2: "REDUCE_SUM"}
ELTWISE_MODES = {0: "MUL", 1: "ADD", 2: "SUB", 3: "MIN", 4: "MAX", 5: "LRELU", 6: "ABS", 7: "CLZ", 8: "SHR", 9: "SHL"}
UNARY_ELTWISE = {"LRELU", "ABS", "CLZ"}

# per accelerator: cores, SHRAM banks, bank size, reserved output banks, reserved unused banks, micro-blocks (w,h,d) ofm / ifm, granules
# [ifm8, ifm16, ifm8_elementwise, ifm32, acc16, acc32, acc40], max outstanding dma / kernels
ACCEL = {
    "ethos-u55-32": dict(cores=1, banks=16, ofm_ublock=(1, 1, 4), ifm_ublock=(1, 1, 8), granules=[2, 2, 2, 2, 4, 4, 4, 4], macs=32, u65=False),
    "ethos-u55-64": dict(cores=1, banks=16, ofm_ublock=(1, 1, 8), ifm_ublock=(1, 1, 8), granules=[2, 2, 2, 2, 4, 4, 4, 8], macs=64, u65=False),
    "ethos-u55-128": dict(cores=1, banks=24, ofm_ublock=(2, 1, 8), ifm_ublock=(2, 1, 8), granules=[4, 4, 4, 4, 8, 4, 8, 12], macs=128, u65=False),
    "ethos-u55-256": dict(cores=1, banks=48, ofm_ublock=(2, 2, 8), ifm_ublock=(2, 2, 8), granules=[8, 8, 8, 8, 16, 8, 16, 20], macs=256, u65=False),
    "ethos-u65-256": dict(cores=1, banks=48, ofm_ublock=(2, 2, 8), ifm_ublock=(2, 2, 8), granules=[8, 8, 8, 8, 16, 8, 16, 20], macs=256, u65=True),
    "ethos-u65-512": dict(cores=2, banks=48, ofm_ublock=(2, 2, 8), ifm_ublock=(2, 2, 8), granules=[8, 8, 8, 8, 16, 8, 16, 20], macs=256, u65=True),
}
SHRAM_BANK_SIZE = 1024
SHRAM_OUTPUT_BANKS = 2
MAX_BLOCK = (32, 64, 128)  # h, w, d
