"""Random generator of legal NpuOperation lists for direct drive of api.npu_generate_register_command_stream (C04, C06, C15).

Buffers come from a small address pool per region so that consecutive operations frequently share / conflict on memory.
The description of every generated op is kept as plain data (`spec`) next to the API object so oracles never read the API object back.
"""
import numpy as np

from . import isa

ACC_API = {"ethos-u55-32": "Ethos_U55_32", "ethos-u55-64": "Ethos_U55_64", "ethos-u55-128": "Ethos_U55_128", "ethos-u55-256": "Ethos_U55_256",
           "ethos-u65-256": "Ethos_U65_256", "ethos-u65-512": "Ethos_U65_512"}
DT = {"UINT8": (8, False), "INT8": (8, True), "INT16": (16, True), "INT32": (32, True), "UINT16": (16, False)}
MEM2MEM = 0x103


def lut_base(acc):
    a = isa.ACCEL[acc]
    banks = a["banks"]
    total = banks - (2 if banks > 16 else 0)
    avail_with_lut = total - (2 if banks <= 16 else 0)
    return avail_with_lut * isa.SHRAM_BANK_SIZE


class FmSpec:
    """plain-data description of a feature map"""

    def __init__(self, shape, dtype, layout, region, tiles, addresses, strides, scale, zp, name=""):
        self.shape, self.dtype, self.layout, self.region = tuple(shape), dtype, layout, region
        self.tiles, self.addresses, self.strides = tuple(tiles), list(addresses), strides  # tiles = (h0, h1, w0); strides = (y, x, c) explicit or None
        self.scale, self.zp, self.name = scale, zp, name

    def elem(self):
        return DT[self.dtype][0] // 8

    def eff_strides(self):
        """(stride_y, stride_x, stride_c) as the hardware registers must hold them"""
        if self.strides is not None:
            return self.strides
        h, w, c = self.shape
        e = self.elem()
        if self.layout == "NHWC":
            return (w * c * e, c * e, e)
        return (e * w * (-(-c // 16) * 16), 16 * e, 16 * e * w)

    def as_dict(self):
        return dict(shape=self.shape, dtype=self.dtype, layout=self.layout, region=self.region, tiles=self.tiles, addresses=self.addresses, strides=self.strides,
                    scale=self.scale, zp=self.zp)


def to_api_fm(s):
    from ethosu.vela import api

    fm = api.NpuFeatureMap()
    fm.data_type = api.NpuDataType[s.dtype]
    fm.region = s.region
    fm.shape = api.NpuShape3D(height=s.shape[0], width=s.shape[1], depth=s.shape[2])
    fm.tiles = api.NpuTileBox(height_0=s.tiles[0], height_1=s.tiles[1], width_0=s.tiles[2], addresses=list(s.addresses))
    fm.quantization = None if s.scale is None and s.zp is None else api.NpuQuantization(scale_f32=s.scale, zero_point=s.zp or 0)
    fm.layout = api.NpuLayout[s.layout]
    fm.strides = None if s.strides is None else api.NpuShape3D(height=s.strides[0], width=s.strides[1], depth=s.strides[2])
    fm.name = s.name
    return fm


class Gen:
    def __init__(self, rng, acc, pool_size=6, max_hw=24):
        self.rng, self.acc = rng, acc
        self.focus = None  # "eltwise-scales": only ADD/SUB/MUL with dense scale relationships (C09 register-level part)
        self.u65 = isa.ACCEL[acc]["u65"]
        self.cores = isa.ACCEL[acc]["cores"]
        self.max_hw = max_hw
        # address pool per region: few distinct 4 KiB-aligned buffers, each big enough for the shapes generated
        self.pool = {r: [int(a) * 0x4000 + int(rng.choice([0, 0, 16, 64, 0x100])) for a in range(pool_size)] for r in (0, 1, 2)}
        self.const_pool = [0x100000 + 0x2000 * i for i in range(6)]
        self.last_ofm = None

    def rdtype(self, kinds=("INT8", "UINT8", "INT16")):
        return str(self.rng.choice(kinds))

    def rquant(self, dtype):
        r = self.rng
        if r.integers(0, 12) == 0:
            return None, None
        bits, signed = DT[dtype]
        if bits == 8:
            zp = int(r.integers(-128, 128)) if signed else int(r.integers(0, 256))
        else:
            zp = 0 if r.integers(0, 4) else int(r.integers(-100, 100)) if signed else int(r.integers(0, 100))
        return float(np.float32(np.exp(r.uniform(np.log(0.002), np.log(0.5))))), zp

    def fm(self, shape, dtype, region=None, base=None, layout=None, allow_tiles=True, allow_slice=True, name=""):
        r = self.rng
        h, w, c = shape
        e = DT[dtype][0] // 8
        layout = layout or ("NHCWB16" if r.integers(0, 2) else "NHWC")
        region = region if region is not None else int(r.choice([1, 1, 1, 2, 0]))
        base = base if base is not None else int(r.choice(self.pool[region]))
        if layout == "NHCWB16":
            base = (base // 16) * 16
        else:
            base = (base // e) * e
        strides = None
        if allow_slice and r.integers(0, 4) == 0:
            # the fm is a slice of a larger tensor (concat/split style): explicit strides
            if layout == "NHWC":
                fullc = c + int(r.integers(0, 3)) * 8
                fullw = w + int(r.integers(0, 3))
                strides = (fullw * fullc * e, fullc * e, e)
            else:
                fullw = w + int(r.integers(0, 3))
                fullc = -(-c // 16) * 16 + 16 * int(r.integers(0, 2))
                strides = (e * fullw * fullc, 16 * e, 16 * e * fullw)
        sy = (strides or FmSpec(shape, dtype, layout, region, (h, h, w), [base, 0, 0, 0], None, None, None).eff_strides())[0]
        tiles, addrs = (h, h, w), [base, 0, 0, 0]
        if allow_tiles and h >= 2 and r.integers(0, 4) == 0:
            # rolling-buffer style: split in height, second tile wraps to another base
            h0 = int(r.integers(1, h))
            # tiles of one feature map never alias each other: each lives in its own 2 MiB bank of the region
            b2 = int(r.choice(self.pool[region])) + 0x200000
            b2 = (b2 // 16) * 16 if layout == "NHCWB16" else (b2 // e) * e
            tiles, addrs = (h0, h0, w), [base, 0, b2, 0]
            if w >= 2 and r.integers(0, 3) == 0:
                w0 = int(r.integers(1, w))
                b1 = ((base + 0x400000) // 16) * 16
                b3 = ((b2 + 0x400000) // 16) * 16
                h1 = h0 if r.integers(0, 2) else int(r.integers(1, h))
                tiles, addrs = (h0, h1, w0), [base, b1, b2, b3]
        scale, zp = self.rquant(dtype)
        return FmSpec(shape, dtype, layout, region, tiles, addrs, strides, scale, zp, name)

    def rand_hw(self):
        r = self.rng
        return int(r.choice([1, 2, 3, 4, 5, 7, 8, 9, 12, 16, self.max_hw])), int(r.choice([1, 2, 3, 4, 5, 8, 9, 13, 16, self.max_hw]))

    def chain_ifm(self, shape, dtype):
        """reuse the previous OFM as IFM when compatible (creates RAW dependencies), else a fresh fm"""
        lo = self.last_ofm
        if lo is not None and lo.shape == tuple(shape) and lo.dtype == dtype and self.rng.integers(0, 3) > 0:
            import copy

            fm = copy.deepcopy(lo)  # same memory, independent record
            if (self.rng.integers(0, 4) == 0 or __import__("os").environ.get("VV_SHIFT_ALWAYS")) and fm.tiles[0] >= fm.shape[0]:
                # a window of the same shape sliding over the producer's buffer: same layout, type and strides, other base address, partial overlap
                k = int(self.rng.integers(1, max(2, fm.shape[0])))
                fm.addresses = [a + k * fm.eff_strides()[0] if i == 0 else a for i, a in enumerate(fm.addresses)]
            return fm
        return None

    def activation(self, dtype, allow_lut=True):
        r = self.rng
        k = r.integers(0, 6)
        if k <= 1:
            return None
        if k == 2:
            return {"op": "NONE_OR_RELU", "min": 0.0, "max": None}
        if k == 3:
            return {"op": "NONE_OR_RELU", "min": float(r.choice([0.0, -1.0])), "max": float(r.choice([6.0, 1.0]))}
        if k == 4 and allow_lut and dtype in ("INT8", "UINT8"):
            return {"op": "TABLE_LOOKUP", "min": None, "max": None, "lut": int(r.integers(0, 8))}
        return {"op": "NONE_OR_RELU", "min": None, "max": None}

    # ---- operations (spec dicts)
    def conv_like(self, kind, force=None):
        r = self.rng
        force = force or {}
        oh, ow = self.rand_hw()
        dtype = self.rdtype(("INT8", "UINT8", "INT16"))
        kh, kw = int(r.choice([1, 1, 2, 3, 3, 5, 7, 9])), int(r.choice([1, 1, 2, 3, 3, 5, 7]))
        sy, sx = int(r.choice([1, 1, 1, 2, 3])), int(r.choice([1, 1, 1, 2, 3]))
        oh, ow, kh, kw, sy = force.get("oh", oh), force.get("ow", ow), force.get("kh", kh), force.get("kw", kw), force.get("sy", sy)
        dy, dx = (int(r.choice([1, 1, 2])), int(r.choice([1, 1, 2]))) if kind != "pool" else (1, 1)
        up = 1
        if kind in ("conv", "pool", "depthwise") and sy == sx == 1 and r.integers(0, 5) == 0:
            up = 2
        ekh, ekw = (kh - 1) * dy + 1, (kw - 1) * dx + 1
        # padding: choose pads < kernel such that the implied ifm extent is >= 1
        pt, pb = int(r.integers(0, min(ekh, 4))), int(r.integers(0, min(ekh, 4)))
        pl, pr = int(r.integers(0, min(ekw, 4))), int(r.integers(0, min(ekw, 4)))
        if r.integers(0, 2):
            pt = pb = pl = pr = 0
        if up == 2:
            # 2x upscaling: the upscaled IFM extent must be even
            if ((oh - 1) * sy + ekh - pt - pb) % 2:
                oh += 1
            if ((ow - 1) * sx + ekw - pl - pr) % 2:
                ow += 1
        ih = (oh - 1) * sy + ekh - pt - pb
        iw = (ow - 1) * sx + ekw - pl - pr
        if ih < 1 or iw < 1:
            pt = pb = pl = pr = 0
            ih, iw = (oh - 1) * sy + ekh, (ow - 1) * sx + ekw
        upmode = "NONE"
        if up == 2:
            if ih % 2 or iw % 2:
                up = 1
            else:
                ih, iw = ih // 2, iw // 2
                upmode = str(r.choice(["NEAREST", "TRANSPOSE"]))
        oc = force.get("oc", int(r.choice([1, 4, 8, 16, 24, 33])))
        ic = oc if kind in ("depthwise", "pool") else int(r.choice([1, 3, 8, 16, 17, 32]))
        sub = None
        if kind == "pool":
            sub = str(r.choice(["MAX", "AVERAGE", "AVERAGE", "REDUCE_SUM"]))
            if sub == "REDUCE_SUM":
                ic, oc = int(r.choice([4, 8, 16, 20])), 1
                kh = kw = sy = sx = 1
                pt = pb = pl = pr = 0
                ih, iw = oh, ow
        ifm = self.chain_ifm((ih, iw, ic), dtype) or self.fm((ih, iw, ic), dtype, name="ifm")
        odtype = dtype if not (kind == "pool" and sub == "REDUCE_SUM") else str(r.choice([dtype, "INT32"]))
        if kind in ("conv", "depthwise") and dtype in ("INT8", "UINT8", "INT16") and r.integers(0, 6) == 0:
            # requantising operation: OFM of another width / signedness than the IFM
            odtype = str(r.choice([d for d in ("INT8", "UINT8", "INT16") if d != dtype]))
        ofm = self.fm((oh, ow, oc), odtype, region=int(r.choice([1, 1, 2])), name="ofm")
        if kind == "pool":
            # average / reduce-sum scaling is derived from both quantisations: they must be present
            import copy

            ifm = copy.deepcopy(ifm)
            for f in (ifm, ofm):
                if f.scale is None:
                    f.scale, f.zp = float(np.float32(0.05)), 0
        if kind == "pool" and sub == "REDUCE_SUM":
            ifm.layout = "NHWC" if (ifm.dtype == "INT32" or self.acc == "ethos-u65-512") else ifm.layout
            if ifm.layout == "NHWC" and ifm.strides is not None and ifm.strides[2] != ifm.elem():
                ifm.strides = None
        spec = dict(kind=kind, sub=sub, ifm=ifm, ofm=ofm, kernel=(kh, kw, sy, sx, dy, dx), pad=(pt, pl, pb, pr), upscale=upmode,
                    act=self.activation(odtype), rounding=str(r.choice(["TFL", "TFL", "NATURAL", "TRUNCATE"])), weights=[], biases=[], fused_quantize=False, rescale=None)
        if kind in ("conv", "depthwise"):
            n = self.cores if self.cores == 1 or oc > 1 else 1
            for core in range(n):
                wb = int(r.choice(self.const_pool)) + core * 0x800
                spec["weights"].append((0, wb, 16 * int(r.integers(1, 64))))
                spec["biases"].append((0, wb + 0x400, 16 * int(r.integers(1, 8))))
            spec["traversal"] = str(r.choice(["DEPTH_FIRST", "PART_KERNEL_FIRST"])) if kind == "conv" else "DEPTH_FIRST"
        if kind == "pool" and sub == "AVERAGE" and r.integers(0, 4) == 0:
            spec["fused_quantize"] = True
        self.last_ofm = ofm
        return spec

    def elementwise(self, force=None):
        """force (optional): dict(sub, oh, ow, oc, dtype, scalar=True, lut=True) - a binary operation with a scalar second operand and a table activation of the
        given size (what a stand-alone table activation is lowered to)"""
        r = self.rng
        force = force or {}
        sub = str(r.choice(["ADD", "SUB", "MUL", "MIN", "MAX", "ABS", "LRELU", "SHR", "SHL", "CLZ", "ADD", "MUL"]))
        if self.focus == "eltwise-scales":
            sub = str(r.choice(["ADD", "SUB", "MUL", "ADD", "SUB"]))
        sub = force.get("sub", sub)
        oh, ow = self.rand_hw()
        oc = int(r.choice([1, 4, 8, 16, 24, 33]))
        oh, ow, oc = force.get("oh", oh), force.get("ow", ow), force.get("oc", oc)
        if sub in ("SHR", "SHL", "CLZ"):
            dtype = "INT32"
        else:
            dtype = self.rdtype(("INT8", "UINT8", "INT16", "INT32") if sub in ("ADD", "SUB", "MUL") else ("INT8", "UINT8", "INT16"))
            if self.focus == "eltwise-scales":
                dtype = self.rdtype(("INT8", "UINT8", "INT16", "INT16"))
        dtype = force.get("dtype", dtype)
        lo_ = self.last_ofm
        if not force and lo_ is not None and r.integers(0, 3) == 0 and sub not in ("SHR", "SHL", "CLZ") and lo_.dtype in ("INT8", "UINT8", "INT16"):
            # consume what the previous operation produced (same shape and type): dependent consecutive kernels
            (oh, ow, oc), dtype = lo_.shape, lo_.dtype
        ifm = self.chain_ifm((oh, ow, oc), dtype) or self.fm((oh, ow, oc), dtype, name="ifm")
        odtype = dtype
        if sub in ("ADD", "SUB", "MUL") and dtype == "INT32":
            odtype = "INT32"
        ofm = self.fm((oh, ow, oc), odtype, region=int(r.choice([1, 1, 2])), name="ofm")
        spec = dict(kind="elementwise", sub=sub, ifm=ifm, ofm=ofm, ifm2=None, scalar=None, reversed=False, act=self.activation(odtype, allow_lut=True),
                    rounding=str(r.choice(["TFL", "TFL", "NATURAL"])), rescale=None, upscale="NONE", weights=[], biases=[], kernel=None, pad=None)
        if dtype == "INT32":
            ifm.scale = ifm.zp = None
            ofm.scale = ofm.zp = None
            spec["act"] = None if spec["act"] and spec["act"]["op"] != "TABLE_LOOKUP" else spec["act"]
        if sub in ("LRELU", "ABS") and ofm.scale is None:
            ofm.scale, ofm.zp = float(np.float32(0.05)), 0
        if force.get("lut"):
            spec["act"] = {"op": "TABLE_LOOKUP", "min": None, "max": None, "lut": int(r.integers(0, 8))}
        if sub not in isa.UNARY_ELTWISE:
            k = r.integers(0, 5)
            if force.get("scalar"):
                k = 0
            if k == 0:
                i2 = self.fm((1, 1, 1), dtype, allow_tiles=False, allow_slice=False, name="ifm2")
                spec["ifm2"] = i2
                # a scalar whose quantised value is representable in the operand type
                bits, signed = DT[dtype]
                lo, hi = (-(1 << (bits - 1)), (1 << (bits - 1)) - 1) if signed else (0, (1 << bits) - 1)
                qv = int(r.integers(max(lo, -1000), min(hi, 1000) + 1))
                if qv % 4 == 0:
                    qv = int(i2.zp or 0)  # a quarter of the scalars are exactly 0.0 (register value = the zero point): "no scalar" and "scalar zero" must not be confused
                k32 = int(r.integers(0, 20))
                spec["scalar"] = float((qv - (i2.zp or 0)) * (i2.scale if i2.scale is not None else 1.0)) if dtype != "INT32" else float(0 if k32 % 4 == 0 else k32)
            else:
                bh, bw, bc = (k == 1), (k == 2 or k == 1), (k == 3)
                shp = (1 if bh else oh, 1 if bw else ow, 1 if bc else oc)
                spec["ifm2"] = self.fm(shp, dtype, name="ifm2")
            if dtype == "INT32":
                spec["ifm2"].scale = spec["ifm2"].zp = None
            spec["reversed"] = bool(r.integers(0, 4) == 0)
            if sub in ("ADD", "SUB", "MUL") and dtype != "INT32" and spec["scalar"] is None and ifm.scale is not None and spec["ifm2"].scale is not None and (self.focus == "eltwise-scales" or r.integers(0, 4) == 0):
                # scale relationships that select different code paths of the scaling derivation: identical, one float32 step apart, nearly equal,
                # power-of-two ratio, tiny (int16-like) values
                rel = int(r.integers(0, 6))
                s1 = np.float32(ifm.scale if rel != 5 else r.choice([3.0518e-5, 1.5259e-5, 6.1e-5, 0.0004]))
                if rel == 0:
                    s2 = s1
                elif rel == 1:
                    s2 = np.nextafter(s1, np.float32(1 if r.integers(0, 2) else 0), dtype=np.float32)
                elif rel in (2, 5):
                    s2 = np.float32(s1 * np.float32(1.0 + float(r.choice([1e-7, 1e-6, 5e-6, 1e-5, 6e-5, -1e-6, -5e-6]))))
                elif rel == 3:
                    s2 = np.float32(s1 * np.float32(2.0 ** int(r.integers(-3, 4))))
                else:
                    s2 = np.float32(spec["ifm2"].scale)
                if spec["ifm2"] is not ifm:
                    ifm.scale, spec["ifm2"].scale = float(s1), float(s2)
        self.last_ofm = ofm
        return spec

    def dma(self):
        r = self.rng
        if r.integers(0, 3) == 0:
            # LUT transfer into SHRAM slot k
            k = int(r.integers(0, 8))
            return dict(kind="dma", src=(0, int(r.choice(self.const_pool)) + 0x1000, 256), dst=(MEM2MEM, lut_base(self.acc) + 256 * k, 256), lut_slot=k)
        length = 16 * int(r.integers(1, 200))
        src_region = int(r.choice([0, 1, 1, 2]))
        src = int(r.choice(self.pool[src_region] if src_region else self.const_pool))
        dst_region = int(r.choice([1, 1, 2]))
        dst = int(r.choice(self.pool[dst_region]))
        src, dst = (src // 16) * 16, (dst // 16) * 16
        if not self.u65 or r.integers(0, 2):
            pass
        else:
            # U65 allows unaligned external addresses/lengths
            src += int(r.integers(0, 16))
            dst += int(r.integers(0, 16))
            length += int(r.integers(0, 16))
        if src_region == dst_region and max(src, dst) < min(src + length, dst + length):
            dst = src + ((length + 15) // 16) * 16 + 64
        return dict(kind="dma", src=(src_region, src, length), dst=(dst_region, dst, length), lut_slot=None)

    def op_list(self, n):
        r = self.rng
        out = []
        for _ in range(n):
            k = r.integers(0, 10)
            if self.focus == "eltwise-scales":
                out.append(self.elementwise())
                continue
            if k <= 2:
                out.append(self.conv_like("conv"))
            elif k == 3:
                out.append(self.conv_like("depthwise"))
            elif k <= 5:
                out.append(self.conv_like("pool"))
            elif k <= 7:
                out.append(self.elementwise())
            else:
                out.append(self.dma())
        return out


def variant_of(rng, spec, gen):
    """an op that shares almost every field with spec and differs in one (maximal register elision), or an exact repeat"""
    import copy

    s = copy.deepcopy(spec)
    if s["kind"] == "dma":
        src = list(s["src"])
        src[1] += 16 * int(rng.integers(0, 3))
        s["src"] = tuple(src)
        return s
    k = rng.integers(0, 14)
    if k == 0:
        s["ofm"].addresses[0] = (int(rng.choice(gen.pool[s["ofm"].region])) // 16) * 16
    elif k == 1 and s["ofm"].zp is not None:
        bits, signed = DT[s["ofm"].dtype]
        s["ofm"].zp = int(rng.integers(-128, 128)) if (bits == 8 and signed) else int(rng.integers(0, 200)) if bits == 8 else 0
    elif k == 2:
        s["ifm"].addresses[0] = (int(rng.choice(gen.pool[s["ifm"].region])) // 16) * 16
    elif k == 3:
        s["act"] = gen.activation(s["ofm"].dtype)
        if s["ofm"].dtype == "INT32" and s["act"] and s["act"]["op"] != "TABLE_LOOKUP":
            s["act"] = None
    elif k == 4 and s["weights"]:
        s["weights"] = [(rg, a + 0x40, ln) for rg, a, ln in s["weights"]]
    elif k == 5:
        s["rounding"] = str(rng.choice(["TFL", "NATURAL"]))
    elif k == 6 and s["ifm"].scale is not None:
        s["ifm"].scale = float(np.float32(s["ifm"].scale * 1.5))
    elif k == 7 and s["ofm"].scale is not None:
        # only the shift of the derived multiplier changes (same 32-bit payload, other parameter half of the command word)
        s["ofm"].scale = float(s["ofm"].scale) * float(2.0 ** int(rng.choice([-2, -1, 1, 2])))
    elif k == 8 and s["ifm"].scale is not None:
        s["ifm"].scale = float(s["ifm"].scale) * float(2.0 ** int(rng.choice([-1, 1])))
        if s.get("ifm2") is not None and s["ifm2"].scale is not None and rng.integers(0, 2):
            s["ifm2"].scale = float(s["ifm2"].scale) * 2.0
    elif k in (9, 10, 11) and "u65" in gen.acc:
        # addresses that differ only above bit 31 (40-bit address space): the low payload word repeats
        which = s["ofm"] if k == 9 else s["ifm"] if k == 10 else None
        if which is not None:
            which.addresses = [a ^ (1 << 32) for a in which.addresses]
        elif s.get("weights"):
            s["weights"] = [(rg, a ^ (1 << 32), ln) for rg, a, ln in s["weights"]]
            s["biases"] = [(rg, a ^ (1 << 33), ln) for rg, a, ln in s["biases"]]
    # otherwise: exact repeat (A, A)
    return s


def to_api(spec, acc):
    """build the API object for a spec (block config chosen via npu_find_block_configs). Returns (op, block_configs_offered or None)"""
    from ethosu.vela import api

    if spec["kind"] == "dma":
        op = api.NpuDmaOperation(api.NpuAddressRange(*spec["src"]), api.NpuAddressRange(*spec["dst"]))
        return op, None
    kind = spec["kind"]
    if kind == "conv":
        op = api.NpuConv2DOperation()
        op.block_traversal = api.NpuBlockTraversal[spec["traversal"]]
    elif kind == "depthwise":
        op = api.NpuConvDepthWiseOperation()
    elif kind == "pool":
        op = api.NpuPoolingOperation(api.NpuPoolingOp[spec["sub"]])
        op.rescale = spec.get("rescale")
    else:
        op = api.NpuElementWiseOperation(api.NpuElementWiseOp[spec["sub"]])
        op.reversed_operands = spec["reversed"]
        op.rescale = spec.get("rescale")
    op.ifm = to_api_fm(spec["ifm"])
    op.ofm = to_api_fm(spec["ofm"])
    if spec.get("ifm2") is not None:
        op.ifm2 = to_api_fm(spec["ifm2"])
        op.ifm2_scalar = spec.get("scalar")
    if spec["kernel"] is not None:
        kh, kw, sy, sx, dy, dx = spec["kernel"]
        op.kernel = api.NpuKernel(kw, kh, sx, sy, dx, dy)
        pt, pl, pb, pr = spec["pad"]
        op.padding = api.NpuPadding(top=pt, left=pl, bottom=pb, right=pr)
    op.weights = [api.NpuAddressRange(*w) for w in spec["weights"]]
    op.biases = [api.NpuAddressRange(*b) for b in spec["biases"]]
    if spec["act"] is not None:
        a = api.NpuActivation(api.NpuActivationOp[spec["act"]["op"]])
        a.min, a.max = spec["act"]["min"], spec["act"]["max"]
        a.lookup_table_index = spec["act"].get("lut", 0)
        op.activation = a
    op.rounding_mode = api.NpuRoundingMode[spec["rounding"]]
    op.fused_quantize = bool(spec.get("fused_quantize"))
    op.ifm_upscale = api.NpuResamplingMode[spec["upscale"]]
    cfgs = api.npu_find_block_configs(op, api.NpuAccelerator[ACC_API[acc]])
    return op, cfgs
