"""Loader for compiled output models: NPU custom operators, their command streams, regions and the offline arena plan.
Everything comes from the file via the independent reader (fbr); nothing is taken from Vela's data structures."""
import numpy as np

from . import decode, fbr, payload

ITEMSIZE = {"float32": 4, "float16": 2, "int32": 4, "uint8": 1, "int64": 8, "bool": 1, "int16": 2, "int8": 1, "float64": 8, "uint32": 4, "uint16": 2, "uint64": 8,
            "complex64": 8, "complex128": 16, "string": 1, "int4": 1}


class NpuOp:
    def __init__(self):
        self.op_index = None
        self.inputs = []
        self.outputs = []
        self.cs_tensor = self.flash_tensor = self.scratch_tensor = self.scratch_fast_tensor = None
        self.words = None
        self.frame_error = None


class Artefact:
    def __init__(self, data, acc=None):
        self.model = fbr.RModel(data)
        self.sg = self.model.subgraphs[0]
        oa = fbr.offline_alloc(self.model)
        self.offsets = oa[2] if oa else None
        self.npu_ops = []
        for k, op in enumerate(self.sg.ops):
            if op.custom == "ethos-u":
                n = NpuOp()
                n.op_index = k
                n.cs_tensor, n.flash_tensor, n.scratch_tensor, n.scratch_fast_tensor = op.inputs[0:4]
                n.inputs, n.outputs = list(op.inputs[4:]), list(op.outputs)
                T = self.sg.tensors[n.cs_tensor]
                try:
                    n.words = payload.parse_payload(bytes(T.data) if T.data is not None else b"", payload.ACC_CLI.get(acc) if acc else None)
                except payload.FrameError as e:
                    n.frame_error = e
                self.npu_ops.append(n)

    def tensor_bytes(self, ti):
        T = self.sg.tensors[ti]
        n = 1
        for d in T.shape:
            n *= d
        return n * ITEMSIZE.get(T.dtype, 1)

    def region_lengths(self, n):
        """published extents: region 0 = constants tensor, 1 = scratch (arena), 2 = scratch_fast"""
        T = self.sg.tensors
        flash = T[n.flash_tensor]
        return {0: len(flash.data) if flash.data is not None else 0, 1: self.tensor_bytes(n.scratch_tensor), 2: self.tensor_bytes(n.scratch_fast_tensor)}

    def flash_bytes(self, n):
        d = self.sg.tensors[n.flash_tensor].data
        return np.frombuffer(bytes(d), dtype=np.uint8) if d is not None else np.zeros(0, dtype=np.uint8)

    def lifetimes(self):
        """tensor index -> (def_time, last_use_time) in operator order; graph inputs -1, graph outputs +inf"""
        sg = self.sg
        INF = len(sg.ops) + 1
        d = {}
        for i in sg.inputs:
            d[i] = [-1, -1]
        for k, op in enumerate(sg.ops):
            for o in op.outputs:
                d.setdefault(o, [k, k])
                d[o][0] = min(d[o][0], k)
            for i in op.inputs:
                if i >= 0:
                    d.setdefault(i, [-1, k])
                    d[i][1] = max(d[i][1], k)
        for o in sg.outputs:
            d.setdefault(o, [-1, INF])
            d[o][1] = INF
        for i, T in enumerate(sg.tensors):
            if getattr(T, "is_variable", False) and T.data is None and i in d:
                d[i] = [-1, INF]  # persistent state: keeps its value from one inference to the next, so its bytes are its own for the whole inference
        return {k: tuple(v) for k, v in d.items()}

    def events(self, n):
        return decode.decode_stream(n.words)
