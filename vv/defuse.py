"""Defined-before-use replay of decoded command streams with shadow 'defined' interval sets per region (C03 monitor 1).

Defined at the start of an Ethos-U operator: the whole constants region, the bytes of the custom operator's input tensors in the arena,
and every arena byte written earlier in the inference (graph inputs, outputs of earlier CPU operators and earlier NPU operators).
Each NPU operation / DMA must read only defined bytes; its writes become defined.  SHRAM table slots are defined by DMA and
invalidated by operations whose buffers cover them.
"""
import re
import numpy as np

from . import decode, footprint, isa, shram


def subtract(a, b):
    """interval set a minus b (both merged (n,2) arrays)"""
    if len(a) == 0 or len(b) == 0:
        return a
    out = []
    j = 0
    for s, e in a:
        cur = s
        while j < len(b) and b[j, 1] <= cur:
            j += 1
        k = j
        while k < len(b) and b[k, 0] < e:
            if b[k, 0] > cur:
                out.append((cur, b[k, 0]))
            cur = max(cur, b[k, 1])
            if cur >= e:
                break
            k += 1
        if cur < e:
            out.append((cur, e))
    return np.array(out, dtype=np.int64).reshape(-1, 2)


def union(a, b):
    if len(a) == 0:
        return b
    if len(b) == 0:
        return a
    return footprint.merge(np.concatenate([a, b]))


class Shadow:
    def __init__(self):
        self.defined = {}  # region -> merged intervals

    def define(self, region, iv):
        self.defined[region] = union(self.defined.get(region, np.zeros((0, 2), dtype=np.int64)), iv)

    def undefine(self, region, iv):
        if region in self.defined:
            self.defined[region] = subtract(self.defined[region], iv)

    def missing(self, region, iv):
        return subtract(iv, self.defined.get(region, np.zeros((0, 2), dtype=np.int64)))


def replay_stream(words, acc, shadow, counters, region_alias=None):
    """-> list of findings (dict). shadow is updated in place (regions 1/2 persist across the custom operators of one inference)."""
    findings = []
    events, info = decode.decode_stream(words)
    bs = isa.SHRAM_BANK_SIZE
    for ev in events:
        if ev.kind == "dma":
            d = decode.dma_fields(ev.op)
            fp = footprint.dma_footprint(d)
            desc = "dma#%d" % ev.op.index
        elif ev.kind == "op":
            F = decode.Fields(ev.op)
            fp = footprint.op_footprint(F, acc)
            desc = "%s/%s#%d" % (F.kind, F.sub, ev.op.index)
        else:
            continue
        copied_undefined = None
        if ev.kind == "dma":
            # a DMA only moves bytes: copying undefined bytes (e.g. the alignment padding behind a tensor whose size is not a multiple of 16) is not a
            # use; the undefinedness travels with the copy and is reported when an operation consumes the destination bytes
            (sr, siv), (dr, div) = fp.parts["dma_src"], fp.parts["dma_dst"]
            miss = shadow.missing(sr, siv)
            counters["bytes_read_checked"] = counters.get("bytes_read_checked", 0) + footprint.total_bytes(siv)
            if len(miss) and len(siv) == 1 and len(div) == 1:
                copied_undefined = (dr, miss - int(siv[0, 0]) + int(div[0, 0]))
                counters["dma_copies_of_undefined_padding"] = counters.get("dma_copies_of_undefined_padding", 0) + 1
        for region, iv in ({} if (ev.kind == "dma" and (copied_undefined is not None or not len(shadow.missing(*fp.parts["dma_src"])))) else fp.reads).items():
            if region == "shram" and ev.kind == "op":
                counters["lut_reads"] = counters.get("lut_reads", 0) + 1
            counters["bytes_read_checked"] = counters.get("bytes_read_checked", 0) + footprint.total_bytes(iv)
            miss = shadow.missing(region, iv)
            if len(miss):
                part = [k for k, (rg, piv) in fp.parts.items() if rg == region and len(subtract(piv, shadow.defined.get(region, np.zeros((0, 2), dtype=np.int64))))]
                findings.append(dict(op=desc, region=str(region), first=(int(miss[0, 0]), int(miss[0, 1])), nbytes=footprint.total_bytes(miss), part=(part[0].rstrip("01") if part else "?")))
        for region, iv in fp.writes.items():
            if region == "shram":
                if ev.kind == "dma":
                    shadow.define("shram", iv)
                    counters["lut_dmas"] = counters.get("lut_dmas", 0) + 1
                else:
                    shadow.undefine("shram", iv)  # buffers overwrite whatever table lived there
            else:
                shadow.define(region, iv)
        if copied_undefined is not None:
            shadow.undefine(*copied_undefined)
        counters["ops_replayed"] = counters.get("ops_replayed", 0) + 1
    return findings


# ------------------------------------------------------------------------------------------------------------- writer tags (C03 monitor 2)
class TagShadow:
    """last-writer tag per byte of the read/write regions of one command stream. Tag 0 = not written inside this stream."""

    def __init__(self):
        self.arr = {}
        self.keys = [None]
        self.ids = {}

    def tag_id(self, key):
        if key not in self.ids:
            self.ids[key] = len(self.keys)
            self.keys.append(key)
        return self.ids[key]

    def _region(self, region, end):
        a = self.arr.get(region)
        if a is None or len(a) < end:
            n = np.zeros(max(end, 1 << 16, 0 if a is None else 2 * len(a)), dtype=np.int32)
            if a is not None:
                n[: len(a)] = a
            self.arr[region] = a = n
        return a

    def write(self, region, iv, key):
        if len(iv) == 0:
            return
        a = self._region(region, int(iv[:, 1].max()))
        t = self.tag_id(key) if key is not None else 0
        for s, e in iv:
            a[s:e] = t

    def foreign(self, region, iv, accept):
        """-> list of (start, end, key) of bytes whose last writer inside this stream is a key not accepted by accept(key)"""
        out = []
        if len(iv) == 0 or region not in self.arr:
            return out
        a = self.arr[region]
        verdict = {0: True}
        for s, e in iv:
            seg = a[s : min(e, len(a))]
            if len(seg) == 0:
                continue
            for t in np.unique(seg):
                t = int(t)
                if t not in verdict:
                    verdict[t] = bool(accept(self.keys[t]))
                if not verdict[t]:
                    pos = int(np.argmax(seg == t))
                    out.append((int(s) + pos, int(s) + pos + int((seg == t).sum()), self.keys[t]))
                    if len(out) >= 3:
                        return out
        return out


def tensor_key(t):
    return None if t is None else str(t.equivalence_id)


def root_name(t):
    """name of the tensor whose bytes t shares by construction: the input of the chain of memory-only operators (RESHAPE, SQUEEZE, EXPAND_DIMS, ...) that
    produces t inside the accelerated subgraph (those operators emit no command: producer and consumer address the same bytes under two names)"""
    from ethosu.vela.graph_optimiser_util import memory_only_ops
    from ethosu.vela.operation import Op

    for _ in range(16):
        ops = getattr(t, "ops", None) or []
        # Memcpy: a memory-only operator on a graph input / output; when it is given the address of its input no command is emitted (when it is not, the copy
        # is a DMA of this stream and the read finds its own tag)
        if len(ops) != 1 or (ops[0].type not in memory_only_ops and ops[0].type != Op.Memcpy) or not ops[0].inputs or ops[0].inputs[0] is None:
            break
        t = ops[0].inputs[0]
    return t.name


def canonical_name(name):
    """tensor name without the clone suffixes the CPU/NPU partitioning adds"""
    name = str(name)
    while name.endswith("_npu") or name.endswith("_cpu"):
        name = name[:-4]
    # the LSTM unrolling names the views of a state tensor at the successive steps <state>_state#<t>: one persistent tensor, updated in place
    name = re.sub(r"_state#\d+$", "", name)
    while name.endswith("_npu") or name.endswith("_cpu"):
        name = name[:-4]
    return name


def tag_replay(call, acc, counters, sh=None, names=None, canon=None):
    """call: one StreamLog record (API ops, words, op -> high-level command).  Every read of a tensor must find bytes last written for that
    tensor (same equivalence id; for encoded weights also the same depth slice), or bytes not written inside this stream at all.
    With a shadow handed in (sh, names: tags of the arena carried over from the graph inputs, the CPU operators and the earlier streams of the same
    inference) a tag from outside the stream is accepted when it names the same tensor (equivalence id, or name up to the _npu/_cpu clone suffixes).
    -> findings (list of dict)"""
    from ethosu.vela.high_level_command_stream import DMA, NpuStripe
    from ethosu.vela.tensor import TensorPurpose

    findings = []
    events, info = decode.decode_stream(call["words"])
    opev = [e for e in events if e.kind in ("op", "dma")]
    if len(opev) != len(call["ops"]):
        counters["tag_streams_unpaired"] = counters.get("tag_streams_unpaired", 0) + 1
        return findings
    carried = sh is not None
    sh = sh if carried else TagShadow()
    names = names if names is not None else {}
    canon = canon or canonical_name

    def nm(t):
        if t is not None:
            names[tensor_key(t)] = root_name(t) if carried else t.name
        return tensor_key(t)

    for ev, apiop in zip(opev, call["ops"]):
        cmd = call["op_to_cmd"].get(apiop)
        if ev.kind == "dma":
            fp = footprint.dma_footprint(decode.dma_fields(ev.op))
            expect, writes = {}, {}
            if isinstance(cmd, DMA):
                sub = int(cmd.box.start_coord[-1]) if cmd.in_tensor.purpose == TensorPurpose.Weights else None
                expect["dma_src"] = (nm(cmd.in_tensor), None)
                writes["dma_dst"] = (nm(cmd.out_tensor), sub)
            desc = "dma#%d" % ev.op.index
        else:
            F = decode.Fields(ev.op)
            fp = footprint.op_footprint(F, acc)
            expect, writes = {}, {}
            if isinstance(cmd, NpuStripe):
                expect["ifm"] = (nm(cmd.ifm_tensor), None)
                if cmd.ifm2_tensor is not None:
                    expect["ifm2"] = (nm(cmd.ifm2_tensor), None)
                if cmd.weight_tensor is not None:
                    d = int(cmd.weight_box.start_coord[-1]) if cmd.weight_box is not None else None
                    for part in ("weights0", "weights1", "scales0", "scales1"):
                        expect[part] = (nm(cmd.weight_tensor), d)
                    if cmd.scale_tensor is not None:
                        for part in ("scales0", "scales1"):
                            expect[part] = (nm(cmd.scale_tensor), "any")
                writes["ofm"] = (nm(cmd.ofm_tensor), None)
            desc = "%s/%s#%d" % (F.kind, F.sub, ev.op.index)
        for part, (region, iv) in fp.parts.items():
            if region in (0, "shram") or part in ("ofm", "dma_dst"):
                continue
            if part not in expect or expect[part][0] is None:
                continue
            want, sub = expect[part]
            counters["tagged_reads_checked"] = counters.get("tagged_reads_checked", 0) + 1

            def accept(key, want=want, sub=sub):
                if key[0] == want:
                    return sub in (None, "any") or key[1] is None or key[1] == sub
                if carried:
                    # written outside this stream: by a CPU operator / as a graph input (key ('ext', name)) or by an earlier stream (another clone of the tensor)
                    other = key[1] if key[0] == "ext" else names.get(key[0])
                    return other is not None and canon(other) == canon(names.get(want, ""))
                return False

            bad = sh.foreign(region, iv, accept)
            if any(True for _ in bad):
                s, e, key = bad[0]
                findings.append(dict(op=desc, part=part.rstrip("01"), region=str(region), first=(s, e), want=(names.get(want, want), sub), found=(names.get(key[0], key[0]), key[1])))
            else:
                a = sh.arr.get(region)
                if a is not None and len(iv) and int(iv[0, 0]) < len(a) and a[int(iv[0, 0])] != 0:
                    counters["tagged_reads_of_stream_written_bytes"] = counters.get("tagged_reads_of_stream_written_bytes", 0) + 1
        for part, (region, iv) in fp.parts.items():
            if region in (0, "shram") or part not in ("ofm", "dma_dst"):
                continue
            w = writes.get(part)
            sh.write(region, iv, None if w is None or w[0] is None else w)
            if part == "dma_dst" and w is not None and w[1] is not None:
                counters["tagged_weight_slices"] = counters.get("tagged_weight_slices", 0) + 1
        counters["tag_ops_replayed"] = counters.get("tag_ops_replayed", 0) + 1
    counters["tag_streams"] = counters.get("tag_streams", 0) + 1
    return findings


def tag_replay_model(calls, art, acc, counters):
    """monitor 2 across the whole inference: one arena shadow carried through the operators of the output model in execution order.  Graph inputs and the
    outputs of CPU operators tag their arena extents by name (a memory-only CPU operator whose output lies exactly on its input keeps the input's tags and
    becomes an alias), every Ethos-U operator replays its stream over the carried shadow (its fast-scratch tags are dropped afterwards).
    -> findings"""
    sg, offs = art.sg, art.offsets
    if offs is None:
        return []
    by_words = {}
    for c in calls:
        by_words.setdefault(tuple(int(w) for w in c["words"][:64]) + (len(c["words"]),), []).append(c)
    sh = TagShadow()
    names = {}
    alias = {}

    def canon(n):
        n = canonical_name(n)
        seen = set()
        while n in alias and n not in seen:
            seen.add(n)
            n = alias[n]
        return n

    def tag_ext(ti):
        if ti < 0 or offs[ti] < 0:
            return
        T = sg.tensors[ti]
        size = art.tensor_bytes(ti)
        if size <= 0:
            return
        key = ("ext", canon(T.name))
        sh.write(1, np.array([[offs[ti], offs[ti] + size]], dtype=np.int64), key)

    for ti in list(sg.inputs) + [k_ for k_, T_ in enumerate(sg.tensors) if getattr(T_, "is_variable", False) and T_.data is None and k_ not in sg.inputs]:
        tag_ext(ti)  # graph inputs and persistent state
    npu_by_index = {n.op_index: n for n in art.npu_ops}
    findings = []
    for k, op in enumerate(sg.ops):
        if k in npu_by_index:
            n = npu_by_index[k]
            if n.frame_error is not None:
                return findings
            cands = by_words.get(tuple(int(w) for w in n.words[:64]) + (len(n.words),), [])
            call = next((c for c in cands if list(c["words"]) == list(n.words)), None)
            if call is None:
                counters["tag_model_streams_unmatched"] = counters.get("tag_model_streams_unmatched", 0) + 1
                return findings
            found = tag_replay(call, acc, counters, sh=sh, names=names, canon=canon)
            for f in found:
                f["cross_stream"] = True
            findings += found
            sh.arr.pop(2, None)
            counters["tag_model_streams"] = counters.get("tag_model_streams", 0) + 1
        else:
            ins = [ti for ti in op.inputs if ti >= 0 and offs[ti] >= 0]
            for to in op.outputs:
                if to < 0 or offs[to] < 0:
                    continue
                same = [ti for ti in ins if offs[ti] == offs[to] and art.tensor_bytes(ti) == art.tensor_bytes(to)]
                if same:
                    alias[canonical_name(sg.tensors[to].name)] = canon(sg.tensors[same[0]].name)  # memory-only operator: same bytes, two names
                    continue
                tag_ext(to)
            counters["tag_model_cpu_ops"] = counters.get("tag_model_cpu_ops", 0) + 1
    return findings
