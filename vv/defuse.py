"""Defined-before-use replay of decoded command streams with shadow 'defined' interval sets per region (C03 monitor 1).

Defined at the start of an Ethos-U operator: the whole constants region, the bytes of the custom operator's input tensors in the arena,
and every arena byte written earlier in the inference (graph inputs, outputs of earlier CPU operators and earlier NPU operators).
Each NPU operation / DMA must read only defined bytes; its writes become defined.  SHRAM table slots are defined by DMA and
invalidated by operations whose buffers cover them.
"""
import numpy as np

from . import decode, footprint, isa, shram


def subtract(a, b):
    """interval set a minus b (both merged (n,2) arrays)"""
    if len(a) == 0 or len(b) == 0:
        return a
    out = []
    j = 0
    for s, e in a:
        cur = s
        while j < len(b) and b[j, 1] <= cur:
            j += 1
        k = j
        while k < len(b) and b[k, 0] < e:
            if b[k, 0] > cur:
                out.append((cur, b[k, 0]))
            cur = max(cur, b[k, 1])
            if cur >= e:
                break
            k += 1
        if cur < e:
            out.append((cur, e))
    return np.array(out, dtype=np.int64).reshape(-1, 2)


def union(a, b):
    if len(a) == 0:
        return b
    if len(b) == 0:
        return a
    return footprint.merge(np.concatenate([a, b]))


class Shadow:
    def __init__(self):
        self.defined = {}  # region -> merged intervals

    def define(self, region, iv):
        self.defined[region] = union(self.defined.get(region, np.zeros((0, 2), dtype=np.int64)), iv)

    def undefine(self, region, iv):
        if region in self.defined:
            self.defined[region] = subtract(self.defined[region], iv)

    def missing(self, region, iv):
        return subtract(iv, self.defined.get(region, np.zeros((0, 2), dtype=np.int64)))


def replay_stream(words, acc, shadow, counters, region_alias=None):
    """-> list of findings (dict). shadow is updated in place (regions 1/2 persist across the custom operators of one inference)."""
    findings = []
    events, info = decode.decode_stream(words)
    bs = isa.SHRAM_BANK_SIZE
    for ev in events:
        if ev.kind == "dma":
            d = decode.dma_fields(ev.op)
            fp = footprint.dma_footprint(d)
            desc = "dma#%d" % ev.op.index
        elif ev.kind == "op":
            F = decode.Fields(ev.op)
            fp = footprint.op_footprint(F, acc)
            desc = "%s/%s#%d" % (F.kind, F.sub, ev.op.index)
        else:
            continue
        for region, iv in fp.reads.items():
            if region == "shram" and ev.kind == "op":
                counters["lut_reads"] = counters.get("lut_reads", 0) + 1
            counters["bytes_read_checked"] = counters.get("bytes_read_checked", 0) + footprint.total_bytes(iv)
            miss = shadow.missing(region, iv)
            if len(miss):
                part = [k for k, (rg, piv) in fp.parts.items() if rg == region and len(subtract(piv, shadow.defined.get(region, np.zeros((0, 2), dtype=np.int64))))]
                findings.append(dict(op=desc, region=str(region), first=(int(miss[0, 0]), int(miss[0, 1])), nbytes=footprint.total_bytes(miss), part=(part[0].rstrip("01") if part else "?")))
        for region, iv in fp.writes.items():
            if region == "shram":
                if ev.kind == "dma":
                    shadow.define("shram", iv)
                    counters["lut_dmas"] = counters.get("lut_dmas", 0) + 1
                else:
                    shadow.undefine("shram", iv)  # buffers overwrite whatever table lived there
            else:
                shadow.define(region, iv)
        counters["ops_replayed"] = counters.get("ops_replayed", 0) + 1
    return findings
