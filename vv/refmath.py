"""Exact reference arithmetic (unbounded Python ints / Fractions): gemmlowp fixed point, TFLite QuantizeMultiplier, etc.
Independent of ethosu.vela; written from the gemmlowp / TFLite reference kernels."""
import math
from fractions import Fraction

I32_MIN, I32_MAX = -(1 << 31), (1 << 31) - 1
I16_MIN, I16_MAX = -(1 << 15), (1 << 15) - 1


def trunc_div(a, b):
    q = abs(a) // abs(b)
    return q if (a >= 0) == (b >= 0) else -q


def srdhm32(a, b):
    """gemmlowp SaturatingRoundingDoublingHighMul for int32"""
    if a == b == I32_MIN:
        return I32_MAX
    ab = a * b
    nudge = (1 << 30) if ab >= 0 else 1 - (1 << 30)
    return trunc_div(ab + nudge, 1 << 31)


def srdhm16(a, b):
    if a == b == I16_MIN:
        return I16_MAX
    ab = a * b
    nudge = (1 << 14) if ab >= 0 else 1 - (1 << 14)
    return trunc_div(ab + nudge, 1 << 15)


def sdhm16(a, b):
    """SaturatingDoublingHighMul (no rounding, truncation toward zero)"""
    if a == b == I16_MIN:
        return I16_MAX
    return trunc_div(a * b, 1 << 15)


def rdbp(x, e):
    """gemmlowp RoundingDivideByPOT"""
    assert e >= 0
    mask = (1 << e) - 1
    rem = x & mask
    thr = (mask >> 1) + (1 if x < 0 else 0)
    return (x >> e) + (1 if rem > thr else 0)


def sat_left_shift(x, n, lo, hi):
    v = x * (1 << n)
    return lo if v < lo else hi if v > hi else v


def quantize_multiplier(d):
    """TFLite QuantizeMultiplier(double) -> (int32 multiplier, exponent 'shift' with value = m * 2^(shift-31))"""
    if d == 0.0:
        return 0, 0
    fr, e = math.frexp(d)
    q = int(math.floor(abs(fr) * (1 << 31) + 0.5)) * (1 if fr > 0 else -1)  # TfLiteRound = round half away
    if q == (1 << 31):
        q //= 2
        e += 1
    if e < -31:
        return 0, 0
    return q, e


def mbqm(x, m, shift):
    """TFLite MultiplyByQuantizedMultiplier(x, m, shift) (shift: positive = left)"""
    left = shift if shift > 0 else 0
    right = -shift if shift < 0 else 0
    return rdbp(srdhm32(x * (1 << left), m), right)


def round_half_away(fr):
    """fr: Fraction -> int"""
    if fr >= 0:
        return int(math.floor(fr + Fraction(1, 2)))
    return -int(math.floor(-fr + Fraction(1, 2)))


def round_half_up(fr):
    return int(math.floor(fr + Fraction(1, 2)))


def frac(x):
    """exact binary value of a float / numpy float as Fraction"""
    return Fraction(float(x))


def downscale_i32_to_i16(m):
    if m >= I32_MAX - (1 << 15):
        return I16_MAX
    return (m + (1 << 15)) >> 16


# ---- exp on negative values (gemmlowp, Q5.26 input, Q0.31 output), exact ints
def _exp_interval(a):
    offset = 28
    constant_term = 1895147668
    constant_1_over_3 = 715827883
    x = a + (1 << offset)
    x2 = srdhm32(x, x)
    x3 = srdhm32(x2, x)
    x4 = srdhm32(x2, x2)
    x4_over_4 = rdbp(x4, 2)
    t = rdbp(srdhm32(x4_over_4 + x3, constant_1_over_3) + x2, 1)
    return constant_term + srdhm32(constant_term, x + t)


def exp_on_negative_values(a, integer_bits=5):
    assert a <= 0
    frac_bits = 31 - integer_bits
    one_quarter = 1 << (frac_bits - 2)
    mask = one_quarter - 1
    a_mod = (a & mask) - one_quarter
    # rescale from integer_bits to 0 integer bits: multiply by 2^integer_bits (saturating)
    resc = sat_left_shift(a_mod, integer_bits, I32_MIN, I32_MAX)
    result = _exp_interval(resc)
    remainder = a_mod - a
    for exponent, mult in ((-2, 1672461947), (-1, 1302514674), (0, 790015084), (1, 290630308), (2, 39332535), (3, 720401), (4, 242)):
        if integer_bits > exponent:
            shift = frac_bits + exponent
            if remainder & (1 << shift):
                result = srdhm32(result, mult)
    if a == 0:
        return I32_MAX
    return result


# ---- TFLite reference_ops::Softmax for 8-bit inputs (gemmlowp fixed point), exact ints
def _sat_rounding_mul_by_pot(x, exponent):
    """gemmlowp SaturatingRoundingMultiplyByPOT"""
    if exponent >= 0:
        return sat_left_shift(x, exponent, I32_MIN, I32_MAX)
    return rdbp(x, -exponent)


def _rounding_half_sum(a, b):
    s = a + b
    sign = 1 if s >= 0 else -1
    return trunc_div(s + sign, 2)


def one_over_one_plus_x_for_x_in_0_1(a):
    """a: raw Q0.31 in [0, 1) -> raw Q0.31 of 1 / (1 + a)"""
    half_den = _rounding_half_sum(a, I32_MAX)                     # F0
    c48_17, cneg32_17 = 1515870810, -1010580540                    # F2
    x = c48_17 + srdhm32(half_den, cneg32_17)                      # F2 (F0 * F2)
    for _ in range(3):
        hdx = srdhm32(half_den, x)                                 # F2
        one_minus = (1 << 29) - hdx                                # F2::One() = 2^(31-2)
        x = x + _sat_rounding_mul_by_pot(srdhm32(x, one_minus), 2)  # F4 -> F2
    return _sat_rounding_mul_by_pot(x, 2 - 1)                      # ExactMulByPot<-1> then Rescale<0>: raw << 1 (saturating)


def softmax_params(beta, input_scale):
    """-> (input_multiplier, input_left_shift, diff_min) as PreprocessSoftmaxScaling / CalculateInputRadius compute them"""
    real = min(float(beta) * float(input_scale) * (1 << (31 - 5)), (1 << 31) - 1.0)
    q, e = quantize_multiplier(real)
    assert e >= 0
    max_in = 1.0 * ((1 << 5) - 1) * (1 << (31 - 5)) / (1 << e)
    return q, e, -int(math.floor(max_in))


def softmax_row_8bit(row, mult, left_shift, diff_min, out_min, out_max):
    """row: list of ints (input codes). Returns output codes (TFLite reference_ops::Softmax, 8-bit output)."""
    mx = max(row)
    sum_of_exps = 0
    exps = []
    for v in row:
        d = v - mx
        if d >= diff_min:
            resc = srdhm32(d * (1 << left_shift), mult)            # MultiplyByQuantizedMultiplierGreaterThanOne
            e = exp_on_negative_values(resc, 5)
            exps.append(e)
            sum_of_exps += rdbp(e, 12)                              # Rescale<12>(F0)
        else:
            exps.append(None)
    headroom_plus_one = 32 - sum_of_exps.bit_length() if sum_of_exps > 0 else 32
    num_bits_over_unit = 12 - headroom_plus_one
    if num_bits_over_unit + 31 - 8 > 31:
        # the reference kernel would call RoundingDivideByPOT with an exponent above 31 (undefined there): rows of >= 512 near-maximal entries
        raise OverflowError("softmax row sum beyond the defined range of the reference kernel")
    shifted_sum_minus_one = ((sum_of_exps << headroom_plus_one) & 0xFFFFFFFF) - (1 << 31)
    shifted_scale = one_over_one_plus_x_for_x_in_0_1(shifted_sum_minus_one)
    out = []
    for e in exps:
        if e is None:
            out.append(out_min)
        else:
            unsat = rdbp(srdhm32(shifted_scale, e), num_bits_over_unit + 31 - 8)
            out.append(min(out_max, max(out_min, unsat + out_min)))
    return out
