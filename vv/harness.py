"""Supervisor/worker runner, evidence writer, known-findings classifier, verdict logic.

A check module (checks/cNN.py) provides
    PID, LEVEL
    gen_cases(tier, seed) -> list of JSON-serialisable case dicts
    run_case(case) -> result dict:
        {"violations": [{"mech": str, "msg": str, "witness": any}], "inconclusive": str|None,
         "counters": {name: int}, "sets": {name: [str]}, "sample": any|None, "key": str|None}
    summarise(agg, tier) -> dict(coverage extras, thresholds={counter: min}, rule=str, assumptions=[...])
Workers are plain subprocesses (no multiprocessing.Pool); a dead or hung worker only costs the case it was running.
"""
import hashlib
import json
import os
import re
import shutil
import subprocess
import sys
import time

from . import repo

VERIF = repo.VERIF
OUT = os.environ.get("VERIF_OUT", VERIF)  # evidence / replays / scratch go here (seeded-change evaluations redirect them away from the registered evidence)
NCPU = int(os.environ.get("VERIF_WORKERS", str(os.cpu_count() or 4)))


def scratch_dir(tag):
    d = os.path.join(OUT, ".scratch", "%s-%d-%d" % (tag, os.getpid(), int(time.time() * 1000) % 100000))
    os.makedirs(d, exist_ok=True)
    return d


def case_hash(obj):
    return hashlib.sha256(json.dumps(obj, sort_keys=True, default=str).encode()).hexdigest()[:12]


# ---------------------------------------------------------------------------------------------- worker side
def _run_forked(mod, case, timeout):
    """Run one case in a forked child so that every case sees the process state of a fresh interpreter (imports done,
    nothing compiled yet) and a crash or hang only costs this case."""
    import select
    import signal

    r, w = os.pipe()
    pid = os.fork()
    if pid == 0:
        code = 0
        try:
            os.close(r)
            try:
                res = mod.run_case(case)
            except BaseException as e:
                import traceback

                res = {"inconclusive": "harness-exception: %s: %s" % (type(e).__name__, e), "tb": traceback.format_exc()[-3000:]}
            data = json.dumps(res, default=str).encode()
            with os.fdopen(w, "wb") as f:
                f.write(data)
        except BaseException:
            code = 3
        finally:
            os._exit(code)
    os.close(w)
    chunks = []
    deadline = time.time() + timeout
    timed_out = False
    with os.fdopen(r, "rb") as f:
        while True:
            left = deadline - time.time()
            if left <= 0:
                timed_out = True
                break
            rl, _, _ = select.select([f], [], [], min(left, 1.0))
            if rl:
                b = os.read(f.fileno(), 1 << 20)
                if not b:
                    break
                chunks.append(b)
    if timed_out:
        try:
            os.kill(pid, signal.SIGKILL)
        except OSError:
            pass
    _, st = os.waitpid(pid, 0)
    if timed_out:
        return {"inconclusive": "watchdog %.0fs" % timeout, "watchdog": True}
    data = b"".join(chunks)
    if not data:
        return {"crashed": st, "log": "child died without a result (wait status %d)" % st}
    try:
        return json.loads(data)
    except Exception:
        return {"crashed": st, "log": "child result unparsable"}


def worker_main(argv):
    modname, casefile, outfile = argv[:3]
    repo.setup()
    import importlib

    mod = importlib.import_module("checks." + modname)
    with open(casefile) as f:
        cases = json.load(f)
    out = open(outfile, "a", buffering=1)
    if hasattr(mod, "worker_init"):
        mod.worker_init()
    fork = getattr(mod, "FORK_PER_CASE", False)
    for idx, case in cases:
        out.write(json.dumps({"i": idx, "start": 1}) + "\n")
        t = time.time()
        if fork:
            res = _run_forked(mod, case, getattr(mod, "CASE_TIMEOUT", 120.0) * 0.9)
            res["wall"] = round(time.time() - t, 3)
            out.write(json.dumps({"i": idx, "res": res}, default=str) + "\n")
            continue
        try:
            res = mod.run_case(case)
        except BaseException as e:  # a harness bug is never a verdict on the code under test
            import traceback

            res = {"inconclusive": "harness-exception: %s: %s" % (type(e).__name__, e), "tb": traceback.format_exc()[-3000:]}
            if isinstance(e, (KeyboardInterrupt, SystemExit)):
                out.write(json.dumps({"i": idx, "res": res}) + "\n")
                raise
        res["wall"] = round(time.time() - t, 3)
        out.write(json.dumps({"i": idx, "res": res}, default=str) + "\n")
    out.close()


# ---------------------------------------------------------------------------------------------- supervisor side
class _Shard:
    def __init__(self, k, items):
        self.k, self.items = k, list(items)
        self.proc = None
        self.results = {}
        self.started = 0.0
        self.restarts = 0


def run_sharded(modname, cases, sdir, nworkers=None, per_case_timeout=120.0, env_extra=None, progress=True):
    """Run cases over worker subprocesses. Returns list of results aligned with cases."""
    nworkers = min(nworkers or NCPU, max(1, len(cases)))
    shards = [_Shard(k, [(i, c) for i, c in enumerate(cases) if i % nworkers == k]) for k in range(nworkers)]
    env = repo.child_env(env_extra)
    results = [None] * len(cases)

    def launch(sh):
        remaining = [(i, c) for i, c in sh.items if results[i] is None]
        if not remaining:
            sh.proc = None
            return
        cf = os.path.join(sdir, "shard%d_%d.json" % (sh.k, sh.restarts))
        of = os.path.join(sdir, "shard%d_%d.out" % (sh.k, sh.restarts))
        with open(cf, "w") as f:
            json.dump(remaining, f)
        open(of, "w").close()
        sh.outfile = of
        sh.pos = 0
        sh.current = None
        sh.cur_started = time.time()
        sh.log = open(os.path.join(sdir, "shard%d_%d.log" % (sh.k, sh.restarts)), "w")
        sh.proc = subprocess.Popen(
            [sys.executable, "-m", "vv.worker", modname, cf, of], cwd=VERIF, env=env, stdout=sh.log, stderr=subprocess.STDOUT
        )
        sh.restarts += 1

    def drain(sh):
        with open(sh.outfile) as f:
            f.seek(sh.pos)
            while True:
                line = f.readline()
                if not line or not line.endswith("\n"):
                    break
                sh.pos = f.tell()
                rec = json.loads(line)
                if "start" in rec:
                    sh.current = rec["i"]
                    sh.cur_started = time.time()
                else:
                    results[rec["i"]] = rec["res"]
                    sh.current = None

    for sh in shards:
        launch(sh)
    t_last = time.time()
    while any(sh.proc is not None for sh in shards):
        time.sleep(0.05)
        for sh in shards:
            if sh.proc is None:
                continue
            rc = sh.proc.poll()
            drain(sh)
            if rc is not None:
                sh.log.close()
                if sh.current is not None and results[sh.current] is None:
                    tail = ""
                    try:
                        tail = open(sh.log.name).read()[-2000:]
                    except Exception:
                        pass
                    results[sh.current] = {"crashed": rc, "log": tail}
                elif rc != 0 and sh.current is None:
                    # died outside a case (import error etc.): mark first remaining case so we make progress
                    rem = [i for i, _ in sh.items if results[i] is None]
                    if rem:
                        tail = open(sh.log.name).read()[-2000:]
                        results[rem[0]] = {"inconclusive": "worker-startup-failure rc=%s" % rc, "log": tail}
                launch(sh)
            elif sh.current is not None and time.time() - sh.cur_started > per_case_timeout:
                sh.proc.kill()
                sh.proc.wait()
                sh.log.close()
                results[sh.current] = {"inconclusive": "watchdog %.0fs" % per_case_timeout, "watchdog": True}
                launch(sh)
        if progress and time.time() - t_last > 30:
            t_last = time.time()
            done = sum(r is not None for r in results)
            print("  .. %d/%d cases" % (done, len(cases)), file=sys.stderr, flush=True)
    return results


# ---------------------------------------------------------------------------------------------- findings
def load_findings():
    p = os.path.join(VERIF, "known_findings.json")
    if not os.path.exists(p):
        return []
    with open(p) as f:
        return json.load(f).get("findings", [])


def classify(pid, mech, findings):
    for f in findings:
        if f["property"] != pid:
            continue
        if f.get("regex"):
            if re.fullmatch(f["key"], mech):
                return f
        elif f["key"] == mech:
            return f
    return None


# ---------------------------------------------------------------------------------------------- aggregate + verdict
class Agg:
    def __init__(self):
        self.counters = {}
        self.sets = {}
        self.samples = []
        self.keys = set()
        self.violations = []  # (case_index, violation)
        self.inconclusive = []  # (case_index, reason)
        self.crashed = []
        self.evaluations = 0

    def add(self, idx, res, max_samples=6):
        self.evaluations += 1
        if res is None:
            self.inconclusive.append((idx, "no-result"))
            return
        if "crashed" in res:
            self.crashed.append((idx, res))
            return
        for k, v in (res.get("counters") or {}).items():
            self.counters[k] = self.counters.get(k, 0) + v
        for k, v in (res.get("sets") or {}).items():
            self.sets.setdefault(k, set()).update(v)
        if res.get("key") is not None:
            self.keys.add(res["key"])
        for k in res.get("keys") or []:
            self.keys.add(k)
        if res.get("sample") is not None and len(self.samples) < max_samples:
            self.samples.append(res["sample"])
        for v in res.get("violations") or []:
            self.violations.append((idx, v))
        if res.get("inconclusive"):
            self.inconclusive.append((idx, res["inconclusive"]))


def write_evidence(pid, tier, seed, level, coverage, assumptions, wall_s, violations):
    os.makedirs(os.path.join(OUT, "evidence"), exist_ok=True)
    ev = {
        "property_id": pid,
        "tier": tier,
        "seed": int(seed),
        "level": level,
        "coverage": coverage,
        "assumptions": assumptions,
        "wall_s": round(wall_s, 2),
        "violations": int(violations),
    }
    p = os.path.join(OUT, "evidence", pid + ".json")
    with open(p + ".tmp", "w") as f:
        json.dump(ev, f, indent=1, default=str)
    os.replace(p + ".tmp", p)
    return p


def finish(mod, tier, seed, cases, results, t0, extra_agg=None):
    """Aggregate, classify, write evidence and replays, print verdict lines, return exit status."""
    pid = mod.PID
    agg = Agg()
    for i, r in enumerate(results):
        agg.add(i, r)
    if extra_agg:
        extra_agg(agg)
    if hasattr(mod, "crash_to_violation"):
        for idx, res in agg.crashed:
            v = mod.crash_to_violation(cases[idx], res)
            if v:
                agg.violations.append((idx, v))
            else:
                agg.inconclusive.append((idx, "worker crashed rc=%s" % res.get("crashed")))
    else:
        for idx, res in agg.crashed:
            agg.inconclusive.append((idx, "worker crashed rc=%s: %s" % (res.get("crashed"), (res.get("log") or "")[-300:])))
    summ = mod.summarise(agg, tier)
    findings = load_findings()
    known, unknown = {}, {}
    for idx, v in agg.violations:
        f = classify(pid, v["mech"], findings)
        (known if f else unknown).setdefault(v["mech"], []).append((idx, v))
    for mech, lst in sorted(known.items()):
        f = classify(pid, mech, findings)
        print("KNOWN-FINDING: property=%s %s [%d occurrence(s); key=%s]" % (pid, f.get("desc", ""), len(lst), mech))
    rdir = os.path.join(OUT, "replays", pid)
    status = 0
    for mech, lst in sorted(unknown.items()):
        idx, v = lst[0]
        os.makedirs(rdir, exist_ok=True)
        path = os.path.join(rdir, case_hash([mech, cases[idx] if idx is not None and idx >= 0 else v.get("witness")]) + ".json")
        with open(path, "w") as f:
            json.dump(
                {"property": pid, "mech": mech, "msg": v.get("msg"), "witness": v.get("witness"), "occurrences": len(lst),
                 "case": cases[idx] if idx is not None and idx >= 0 else None, "tier": tier, "seed": seed},
                f, indent=1, default=str,
            )
        print("VIOLATION property=%s replay=%s" % (pid, path))
        print("  mech=%s occurrences=%d msg=%s" % (mech, len(lst), str(v.get("msg"))[:600]))
        status = 1
    thresholds = summ.get("thresholds", {})
    unmet = {k: (agg.counters.get(k, 0), m) for k, m in thresholds.items() if agg.counters.get(k, 0) < m}
    ninc = len(agg.inconclusive)
    max_inc = summ.get("max_inconclusive_frac", 0.2)
    cov = {
        "evaluations": max(agg.evaluations, summ.get("evaluations", 0)),
        "distinct_nontrivial": summ.get("distinct_nontrivial", len(agg.keys)),
        "rule": summ.get("rule", ""),
        "samples": (summ.get("samples") or agg.samples)[:8],
        "counters": dict(sorted(agg.counters.items())),
        "sets": {k: sorted(v)[:60] for k, v in sorted(agg.sets.items())},
        "set_sizes": {k: len(v) for k, v in sorted(agg.sets.items())},
        "inconclusive_cases": ninc,
        "inconclusive_reasons": _top_reasons(agg.inconclusive),
        "thresholds": thresholds,
        "thresholds_unmet": {k: list(v) for k, v in unmet.items()},
        "known_findings_hit": {m: len(l) for m, l in known.items()},
        "unlisted_violation_mechanisms": {m: len(l) for m, l in unknown.items()},
        "repo": repo.REPO,
        "repo_head": repo.repo_head(),
    }
    for k, v in (summ.get("coverage") or {}).items():
        cov[k] = v
    if cov["distinct_nontrivial"] < 2 and status == 0 and not unmet:
        unmet["distinct_nontrivial"] = (cov["distinct_nontrivial"], 2)
    write_evidence(pid, tier, seed, mod.LEVEL, cov, summ.get("assumptions", []), time.time() - t0, len(agg.violations))
    print(
        "%s tier=%s seed=%s cases=%d violations=%d (known %d, unlisted %d) inconclusive=%d wall=%.1fs"
        % (pid, tier, seed, len(cases), len(agg.violations), sum(map(len, known.values())), sum(map(len, unknown.values())), ninc, time.time() - t0)
    )
    keyc = {k: agg.counters[k] for k in list(thresholds) if k in agg.counters}
    print("  observed: " + json.dumps(keyc))
    if status == 0:
        if unmet:
            print("INCONCLUSIVE property=%s reason=thresholds-unmet %s" % (pid, json.dumps({k: list(v) for k, v in unmet.items()})))
            status = 2
        elif len(cases) and ninc > max_inc * len(cases):
            print("INCONCLUSIVE property=%s reason=too-many-inconclusive-cases %d/%d %s" % (pid, ninc, len(cases), json.dumps(_top_reasons(agg.inconclusive))))
            status = 2
    return status


def _top_reasons(inc):
    d = {}
    for _, r in inc:
        r = re.sub(r"\d+", "N", str(r))[:100]
        d[r] = d.get(r, 0) + 1
    return dict(sorted(d.items(), key=lambda kv: -kv[1])[:10])


def main_for(mod, argv):
    import argparse

    ap = argparse.ArgumentParser()
    ap.add_argument("--tier", default=os.environ.get("VERIF_TIER", "quick"))
    ap.add_argument("--replay", default=None)
    ap.add_argument("--seed", type=int, default=int(os.environ.get("VERIF_SEED", "0")))
    ap.add_argument("--keep", action="store_true")
    a = ap.parse_args(argv)
    t0 = time.time()
    if a.replay:
        repo.setup()
        with open(a.replay) as f:
            rp = json.load(f)
        if hasattr(mod, "worker_init"):
            mod.worker_init()
        case = rp.get("case")
        if case is not None and isinstance(rp.get("witness"), dict) and rp["witness"].get("model_z"):
            case = dict(case, model_z=rp["witness"]["model_z"], info=rp["witness"].get("info"), wcfg=rp["witness"].get("cfg"), wfamily=rp["witness"].get("family"))
        if case is not None:
            case["sdir"] = scratch_dir(mod.PID + "-replay")
        if case is None and hasattr(mod, "replay_witness"):
            res = mod.replay_witness(rp)
        else:
            res = mod.run_case(case)
        print(json.dumps(res, indent=1, default=str)[:20000])
        return 1 if res.get("violations") else 0
    try:
        repo.build_codec()
    except Exception as e:
        print("INCONCLUSIVE property=%s reason=codec-build-failed %s" % (mod.PID, str(e)[-500:]))
        return 2
    sdir = scratch_dir(mod.PID)
    shutil.rmtree(os.path.join(OUT, "replays", mod.PID), ignore_errors=True)  # replays belong to the run that wrote them
    try:
        if hasattr(mod, "run"):
            return mod.run(a.tier, a.seed, sdir, t0)
        cases = mod.gen_cases(a.tier, a.seed)
        for c in cases:
            if isinstance(c, dict):
                c.setdefault("sdir", sdir)
        results = run_sharded(mod.__name__.split(".")[-1], cases, sdir, per_case_timeout=getattr(mod, "CASE_TIMEOUT", 120.0),
                              env_extra=getattr(mod, "ENV", None))
        extra = getattr(mod, "post_run", None)
        return finish(mod, a.tier, a.seed, cases, results, t0, extra_agg=(lambda agg: extra(agg, cases, results, a.tier, a.seed, sdir)) if extra else None)
    finally:
        if not a.keep:
            shutil.rmtree(sdir, ignore_errors=True)
