"""Minimal independent TFLite flatbuffer *writer* (flatbuffers.Builder + generated builder functions only).

Does not use ethosu.vela.tflite_writer.  Networks are described with T (tensor) / O (operator) records, which are also
what the reference interpreter (tfref) consumes, so the source model semantics never depends on Vela's reader.
"""
import importlib

import flatbuffers
import numpy as np

from ethosu.vela.tflite import Buffer, Metadata, Model, Operator, OperatorCode, SubGraph, Tensor
from ethosu.vela.tflite import QuantizationParameters as QP
from ethosu.vela.tflite.BuiltinOperator import BuiltinOperator as BO  # noqa: F401
from ethosu.vela.tflite.BuiltinOptions import BuiltinOptions as BOpt
from ethosu.vela.tflite.TensorType import TensorType as TT

NP2TT = {
    "int8": TT.INT8, "uint8": TT.UINT8, "int16": TT.INT16, "int32": TT.INT32, "int64": TT.INT64,
    "float32": TT.FLOAT32, "float16": TT.FLOAT16, "bool": TT.BOOL, "uint32": TT.UINT32, "float64": TT.FLOAT64,
    "uint16": TT.UINT16, "uint64": TT.UINT64, "complex64": TT.COMPLEX64,
}


def camel(s):
    return "".join(p.capitalize() for p in s.split("_"))


class T:
    """Tensor record."""

    def __init__(self, name, shape, dtype, scale=None, zp=None, qdim=0, data=None, is_variable=False, tt=None, no_shape=False):
        self.name, self.shape, self.dtype = name, [int(s) for s in shape], np.dtype(dtype) if tt is None else dtype
        self.scale = None if scale is None else [float(np.float32(s)) for s in np.atleast_1d(scale)]
        self.zp = None if zp is None else [int(z) for z in np.atleast_1d(zp)]
        self.qdim, self.is_variable, self.tt, self.no_shape = qdim, is_variable, tt, no_shape
        self.data = None if data is None else np.ascontiguousarray(np.asarray(data, dtype=self.dtype).reshape(self.shape))

    def tt_code(self):
        return self.tt if self.tt is not None else NP2TT[self.dtype.name]


class O:
    """Operator record."""

    def __init__(self, code, inputs, outputs, opt_name=None, opts=None, version=1, custom_code=None, custom_options=None):
        self.code, self.inputs, self.outputs = int(code), list(inputs), list(outputs)
        self.opt_name, self.opts, self.version = opt_name, dict(opts or {}), version
        self.custom_code, self.custom_options = custom_code, custom_options


class Net:
    def __init__(self, tensors=None, ops=None, inputs=None, outputs=None, tag=""):
        self.tensors, self.ops, self.inputs, self.outputs, self.tag = tensors or [], ops or [], inputs or [], outputs or [], tag
        self.info = {}

    def t(self, name):
        for t in self.tensors:
            if t.name == name:
                return t
        raise KeyError(name)

    def add_t(self, *a, **k):
        t = T(*a, **k)
        self.tensors.append(t)
        return t

    def add_o(self, *a, **k):
        o = O(*a, **k)
        self.ops.append(o)
        return o


def _vec(b, start, vals, prepend):
    start(b, len(vals))
    for v in reversed(vals):
        prepend(v)
    return b.EndVector()


def build(net, description="vv generated", with_metadata=True):
    tensors, ops, inputs, outputs = net.tensors, net.ops, net.inputs, net.outputs
    b = flatbuffers.Builder(1 << 16)
    tidx = {t.name: i for i, t in enumerate(tensors)}
    assert len(tidx) == len(tensors), "duplicate tensor names"
    buf_offs = []
    Buffer.BufferStart(b)
    buf_offs.append(Buffer.BufferEnd(b))
    tbuf = {}
    for t in tensors:
        if t.data is None:
            tbuf[t.name] = 0
            continue
        raw = t.data.tobytes()
        b.StartVector(1, len(raw), 16)
        b.head = b.head - len(raw)
        b.Bytes[b.head : b.head + len(raw)] = raw
        dv = b.EndVector()
        Buffer.BufferStart(b)
        Buffer.BufferAddData(b, dv)
        tbuf[t.name] = len(buf_offs)
        buf_offs.append(Buffer.BufferEnd(b))
    meta_offs = []
    if with_metadata:
        raw = b"1.5.0" + b"\0" * 11
        dv = b.CreateByteVector(raw)
        Buffer.BufferStart(b)
        Buffer.BufferAddData(b, dv)
        mb = len(buf_offs)
        buf_offs.append(Buffer.BufferEnd(b))
        mn = b.CreateString("min_runtime_version")
        Metadata.MetadataStart(b)
        Metadata.MetadataAddName(b, mn)
        Metadata.MetadataAddBuffer(b, mb)
        meta_offs.append(Metadata.MetadataEnd(b))
    toffs = []
    for t in tensors:
        n = b.CreateString(getattr(t, "wire_name", None) or t.name)  # wire_name: the name written to the file when it is not the (unique) name the builder uses
        sh = None if t.no_shape else _vec(b, Tensor.TensorStartShapeVector, t.shape, b.PrependInt32)
        q = None
        omit = getattr(t, "omit", None)  # "zp" / "scale": that vector is absent from the table (both are optional fields of the schema)
        if t.scale is not None or (omit == "scale" and t.zp is not None):
            sc = _vec(b, QP.QuantizationParametersStartScaleVector, [float(s) for s in t.scale], b.PrependFloat32) if omit != "scale" else None
            z = _vec(b, QP.QuantizationParametersStartZeroPointVector, [int(v) for v in (t.zp or [])], b.PrependInt64) if omit != "zp" else None
            mnv = _vec(b, QP.QuantizationParametersStartMinVector, [float(s) for s in t.qmin], b.PrependFloat32) if getattr(t, "qmin", None) else None
            mxv = _vec(b, QP.QuantizationParametersStartMaxVector, [float(s) for s in t.qmax], b.PrependFloat32) if getattr(t, "qmax", None) else None
            QP.QuantizationParametersStart(b)
            if mnv is not None:
                QP.QuantizationParametersAddMin(b, mnv)
            if mxv is not None:
                QP.QuantizationParametersAddMax(b, mxv)
            if sc is not None:
                QP.QuantizationParametersAddScale(b, sc)
            if z is not None:
                QP.QuantizationParametersAddZeroPoint(b, z)
            QP.QuantizationParametersAddQuantizedDimension(b, t.qdim)
            q = QP.QuantizationParametersEnd(b)
        Tensor.TensorStart(b)
        if sh is not None:
            Tensor.TensorAddShape(b, sh)
        Tensor.TensorAddType(b, t.tt_code())
        Tensor.TensorAddBuffer(b, tbuf[t.name])
        Tensor.TensorAddName(b, n)
        if q is not None:
            Tensor.TensorAddQuantization(b, q)
        if t.is_variable:
            Tensor.TensorAddIsVariable(b, True)
        toffs.append(Tensor.TensorEnd(b))
    codes = []
    for o in ops:
        k = (o.code, o.version, o.custom_code)
        if k not in codes:
            codes.append(k)
    ooffs = []
    for o in ops:
        opt_off = None
        if o.opt_name:
            m = importlib.import_module("ethosu.vela.tflite." + o.opt_name)
            pre = {}
            for k, v in o.opts.items():
                if isinstance(v, (list, tuple)):
                    pre[k] = _vec(b, getattr(m, "%sStart%sVector" % (o.opt_name, camel(k))), [int(x) for x in v], b.PrependInt32)
            getattr(m, o.opt_name + "Start")(b)
            for k, v in o.opts.items():
                getattr(m, "%sAdd%s" % (o.opt_name, camel(k)))(b, pre.get(k, v))
            opt_off = getattr(m, o.opt_name + "End")(b)
        co = None
        if o.custom_options is not None:
            co = b.CreateByteVector(bytes(o.custom_options))
        ins = _vec(b, Operator.OperatorStartInputsVector, [tidx[i] if i is not None else -1 for i in o.inputs], b.PrependInt32)
        outs = _vec(b, Operator.OperatorStartOutputsVector, [tidx[i] for i in o.outputs], b.PrependInt32)
        inter = _vec(b, Operator.OperatorStartIntermediatesVector, [tidx[i] for i in o.intermediates], b.PrependInt32) if getattr(o, "intermediates", None) else None
        Operator.OperatorStart(b)
        Operator.OperatorAddOpcodeIndex(b, codes.index((o.code, o.version, o.custom_code)))
        Operator.OperatorAddInputs(b, ins)
        Operator.OperatorAddOutputs(b, outs)
        if opt_off is not None:
            Operator.OperatorAddBuiltinOptionsType(b, getattr(BOpt, o.opt_name))
            Operator.OperatorAddBuiltinOptions(b, opt_off)
        if co is not None:
            Operator.OperatorAddCustomOptions(b, co)
        if inter is not None:
            Operator.OperatorAddIntermediates(b, inter)
        ooffs.append(Operator.OperatorEnd(b))
    tv = _vec(b, SubGraph.SubGraphStartTensorsVector, toffs, b.PrependUOffsetTRelative)
    iv = _vec(b, SubGraph.SubGraphStartInputsVector, [tidx[i] for i in inputs], b.PrependInt32)
    ov = _vec(b, SubGraph.SubGraphStartOutputsVector, [tidx[i] for i in outputs], b.PrependInt32)
    opv = _vec(b, SubGraph.SubGraphStartOperatorsVector, ooffs, b.PrependUOffsetTRelative)
    sg_name = getattr(net, "sg_name", "main")  # None: the (optional) subgraph name is left out
    nm = b.CreateString(sg_name) if sg_name is not None else None
    SubGraph.SubGraphStart(b)
    SubGraph.SubGraphAddTensors(b, tv)
    SubGraph.SubGraphAddInputs(b, iv)
    SubGraph.SubGraphAddOutputs(b, ov)
    SubGraph.SubGraphAddOperators(b, opv)
    if nm is not None:
        SubGraph.SubGraphAddName(b, nm)
    sg = SubGraph.SubGraphEnd(b)
    coffs = []
    for code, ver, cc in codes:
        ccs = b.CreateString(cc) if cc else None
        OperatorCode.OperatorCodeStart(b)
        OperatorCode.OperatorCodeAddDeprecatedBuiltinCode(b, min(code, 127))
        OperatorCode.OperatorCodeAddBuiltinCode(b, code)
        OperatorCode.OperatorCodeAddVersion(b, ver)
        if ccs:
            OperatorCode.OperatorCodeAddCustomCode(b, ccs)
        coffs.append(OperatorCode.OperatorCodeEnd(b))
    ocv = _vec(b, Model.ModelStartOperatorCodesVector, coffs, b.PrependUOffsetTRelative)
    sgv = _vec(b, Model.ModelStartSubgraphsVector, [sg], b.PrependUOffsetTRelative)
    bv = _vec(b, Model.ModelStartBuffersVector, buf_offs, b.PrependUOffsetTRelative)
    mv = _vec(b, Model.ModelStartMetadataVector, meta_offs, b.PrependUOffsetTRelative) if meta_offs else None
    d = b.CreateString(description)
    Model.ModelStart(b)
    Model.ModelAddVersion(b, 3)
    Model.ModelAddOperatorCodes(b, ocv)
    Model.ModelAddSubgraphs(b, sgv)
    Model.ModelAddDescription(b, d)
    Model.ModelAddBuffers(b, bv)
    if mv is not None:
        Model.ModelAddMetadata(b, mv)
    b.Finish(Model.ModelEnd(b), b"TFL3")
    return bytes(b.Output())
