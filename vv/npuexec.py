"""Executable NPU model: replays a decoded command stream over byte-addressed memory images of the regions and SHRAM (DESIGN Appendix B).

Operators or modes that are not modelled raise Unmodelled: the case is then inconclusive, never held.
"""
import numpy as np

from . import decode, isa, mlwref, shram
from .tfref import v_mbqm, v_rdbp, v_srdhm


class Unmodelled(Exception):
    pass


class ExecError(Exception):
    pass


class Memory:
    """regions 0,1,2 as uint8 arrays + SHRAM; optional 'defined' shadow"""

    def __init__(self, sizes, shram_size, poison=0xA5):
        self.mem = {r: np.full(n, poison, dtype=np.uint8) for r, n in sizes.items()}
        self.shram = np.zeros(shram_size, dtype=np.uint8)

    def region(self, r):
        if r not in self.mem:
            raise ExecError("region %s not present" % r)
        return self.mem[r]


_wcache = {}
_idxcache = {}
_codec = None


def _guarded_decode(stream_bytes):
    """the repository's C decoder is fast but calls exit() on a malformed stream: small streams go through the reference decoder, large ones through
    the C decoder in a forked child, so a stream that does not decode becomes an ExecError of this case instead of killing the worker"""
    if len(stream_bytes) <= 1536:
        try:
            return np.asarray(mlwref.decode(stream_bytes), dtype=np.int64)
        except mlwref.MlwError as e:
            raise ExecError("weight stream does not decode: %s" % e)
    import os

    r, w_ = os.pipe()
    pid = os.fork()
    if pid == 0:
        code = 1
        try:
            os.close(r)
            out = np.asarray(_codec.decode(bytearray(stream_bytes)), dtype=np.int16).tobytes()
            with os.fdopen(w_, "wb") as f:
                f.write(out)
            code = 0
        finally:
            os._exit(code)
    os.close(w_)
    with os.fdopen(r, "rb") as f:
        data = f.read()
    _, st = os.waitpid(pid, 0)
    if st != 0:
        raise ExecError("weight stream does not decode (decoder aborted)")
    return np.frombuffer(data, dtype=np.int16).astype(np.int64)


def _decode_weights(stream_bytes, counters):
    global _codec
    key = hash(stream_bytes)
    hit = _wcache.get(key)
    if hit is not None and hit[0] == len(stream_bytes):
        return hit[1]
    if _codec is None:
        import ethosu.mlw_codec as _c

        _codec = _c
    w = _guarded_decode(stream_bytes)
    counters["weight_streams_decoded"] = counters.get("weight_streams_decoded", 0) + 1
    if len(stream_bytes) <= 4096 and counters["weight_streams_decoded"] % 8 == 1:
        ref = np.asarray(mlwref.decode(stream_bytes), dtype=np.int64)
        counters["weight_streams_crosschecked"] = counters.get("weight_streams_crosschecked", 0) + 1
        if len(ref) != len(w) or (ref != w).any():
            raise ExecError("repository decoder disagrees with the reference decoder")
    if len(_wcache) > 64:
        _wcache.clear()
    _wcache[key] = (len(stream_bytes), w)
    return w


def _reorder_index(shape, ifm_ub, ofm_ub, obd, is_dw, is_pk, bits, dech, decw):
    key = (shape, ifm_ub, ofm_ub, obd, is_dw, is_pk, bits, dech, decw)
    if key not in _idxcache:
        if len(_idxcache) > 64:
            _idxcache.clear()
        _idxcache[key] = mlwref.reorder_index_ref(shape, ifm_ub, ofm_ub, obd, is_dw, is_pk, bits, dech, decw)
    return _idxcache[key]


def fm_addresses(fm, h, w, c):
    """int64 array [h, w, c] of byte addresses of the elements of a decoded feature map view"""
    e = fm.bits // 8
    Y, X = np.meshgrid(np.arange(h, dtype=np.int64), np.arange(w, dtype=np.int64), indexing="ij")
    right = X >= fm.width0
    lower = np.where(right, Y >= fm.height1, Y >= fm.height0)
    tile = right.astype(np.int64) + 2 * lower.astype(np.int64)
    yy = Y - np.where(lower, np.where(right, fm.height1, fm.height0), 0)
    xx = X - np.where(right, fm.width0, 0)
    base = np.asarray(fm.bases, dtype=np.int64)[tile] + yy * fm.stride_y
    C = np.arange(c, dtype=np.int64)
    if fm.nhcwb16:
        a = base[:, :, None] + (xx * 16 * e)[:, :, None] + ((C // 16) * fm.stride_c + (C % 16) * e)[None, None, :]
    else:
        a = base[:, :, None] + (xx * fm.stride_x)[:, :, None] + (C * e)[None, None, :]
    return a


def read_fm(mem, fm, h, w, c):
    a = fm_addresses(fm, h, w, c)
    buf = mem.region(fm.region)
    e = fm.bits // 8
    if a.size and (a.min() < 0 or a.max() + e > len(buf)):
        raise ExecError("feature map read outside region %d (max address %d, size %d)" % (fm.region, int(a.max()) + e, len(buf)))
    v = buf[a].astype(np.int64)
    for k in range(1, e):
        v |= buf[a + k].astype(np.int64) << (8 * k)
    if fm.signed:
        v = np.where(v >= (1 << (fm.bits - 1)), v - (1 << fm.bits), v)
    return v


def write_fm(mem, fm, vals):
    h, w, c = vals.shape
    a = fm_addresses(fm, h, w, c)
    buf = mem.region(fm.region)
    e = fm.bits // 8
    if a.size and (a.min() < 0 or a.max() + e > len(buf)):
        raise ExecError("feature map write outside region %d" % fm.region)
    u = vals & ((1 << fm.bits) - 1)
    for k in range(e):
        buf[a + k] = ((u >> (8 * k)) & 0xFF).astype(np.uint8)


def scale_round(x, m, s, rounding):
    """x int64 array; m, s scalars or arrays broadcastable; rounding field 0 TFL, 1 TRUNCATE, 2 NATURAL"""
    m = np.asarray(m, dtype=np.int64)
    s = np.asarray(s, dtype=np.int64)
    if rounding == 0:
        return v_mbqm(x, m, 31 - s)
    if rounding == 2:
        return (x * m + np.where(s > 0, np.int64(1) << np.maximum(s - 1, 0), 0)) >> s
    ax = np.abs(x)
    return np.sign(x) * ((ax * m) >> s)


def out_range(F):
    lo, hi = (-(1 << (F.ofm.bits - 1)), (1 << (F.ofm.bits - 1)) - 1) if F.ofm.signed else (0, (1 << F.ofm.bits) - 1)
    if F.act_clip == 3:
        return max(-128, F.act_min), min(127, F.act_max)
    if F.ofm.bits == 32:
        return lo, hi  # the 16-bit ACTIVATION_MIN/MAX registers cannot express a 32-bit range: 32-bit results are not clamped
    return max(lo, F.act_min), min(hi, F.act_max)


def ofm_zp(F):
    """calibration (DESIGN section 8): the OFM zero point is not applied to 32-bit outputs (raw accumulators handed to a following operation)"""
    if F.ofm.bits == 32 and F.act_clip == 3 and F.lut_index is not None:
        return F.ofm.zero_point  # the value indexes a table through the forced int8 range: the zero point positions it in that range
    return 0 if F.ofm.bits == 32 else F.ofm.zero_point


MODEL_16BIT_LUT = bool(int(__import__('os').environ.get('VV_LUT16', '0')))  # 16-bit-index tables (int16 softmax): modelled, not calibrated  # 32-bit-result and 16-bit-index tables (softmax lowering): modelled but not yet calibrated against the reference kernels


def lut_apply(F, acc, vals, mem, acc_name):
    if F.lut_index is None:
        if F.act_fn in (3, 4):
            raise Unmodelled("hardware tanh/sigmoid activation")
        return vals
    a = isa.ACCEL[acc_name]
    total, end_with_lut = shram.limits(acc_name, True)
    base = (end_with_lut if a["banks"] <= 16 else total) * isa.SHRAM_BANK_SIZE + 256 * F.lut_index
    if F.ofm.bits == 32 and F.act_clip == 3:
        # 8-bit index (the clip field forces the int8 range), 256 entries of 32 bits; the entry is the 32-bit result (softmax exp table)
        t = mem.shram[base : base + 1024].view("<u4").astype(np.int64)
        t = np.where(t >= (1 << 31), t - (1 << 32), t)
        return t[(vals + 128) & 0xFF]
    if F.ofm.bits in (16, 32) and F.ifm.bits == 16 and F.act_clip != 3 and MODEL_16BIT_LUT:
        # 16-bit index: 512 entries of (slope << 16) + base; index = upper 9 bits, linear interpolation over the lower 7 bits with rounding
        # (the TFLite int16 table kernel: base + ((slope * offset + 64) >> 7)); calibration note in DESIGN section 8
        t = mem.shram[base : base + 2048].view("<u4").astype(np.int64)
        t = np.where(t >= (1 << 31), t - (1 << 32), t)
        lo16 = t & 0xFFFF
        b16 = np.where(lo16 >= 0x8000, lo16 - 0x10000, lo16)
        slope = (t - b16) >> 16
        v = np.clip(vals, -32768, 32767)
        idx = (v + 32768) >> 7
        off = v & 0x7F
        out = b16[idx] + ((slope[idx] * off + 64) >> 7)
        if F.ofm.bits == 16:
            out = np.clip(out, -32768, 32767)
        return out
    if not (F.ifm.bits == 8 and F.ofm.bits == 8):
        raise Unmodelled("%d/%d-bit table lookup" % (F.ifm.bits, F.ofm.bits))
    table = mem.shram[base : base + 256]
    if F.ofm.signed:
        idx = (vals + 128) & 0xFF
        t = table.astype(np.int8).astype(np.int64)
    else:
        idx = vals & 0xFF
        t = table.astype(np.int64)
    return t[idx]


def gather_ifm(mem, F, fm, up, pads, kh, kw, sy, sx, oh, ow, depth):
    """IFM prepared for windowing: zero-point subtracted, upscaled, zero padded -> [H, W, C] int64 with H >= (oh-1)*sy+kh"""
    pt, pl, pb, pr = pads
    x = read_fm(mem, fm, fm.height, fm.width, depth) - fm.zero_point
    if up == 2:
        if F.upscale == 1:
            x = np.repeat(np.repeat(x, 2, axis=0), 2, axis=1)
        else:
            z = np.zeros((x.shape[0] * 2, x.shape[1] * 2, x.shape[2]), dtype=np.int64)
            z[::2, ::2, :] = x
            x = z
    need_h, need_w = (oh - 1) * sy + kh, (ow - 1) * sx + kw
    xp = np.zeros((max(need_h, pt + x.shape[0]), max(need_w, pl + x.shape[1]), depth), dtype=np.int64)
    xp[pt : pt + x.shape[0], pl : pl + x.shape[1], :] = x
    return xp[:need_h, :need_w, :], x


def exec_conv(mem, F, acc_name, counters):
    a = isa.ACCEL[acc_name]
    oh, ow, od = F.ofm.height, F.ofm.width, F.ofm.depth
    is_dw = F.kind == "depthwise"
    ic = od if is_dw else F.ifm.depth
    xp, _ = gather_ifm(mem, F, F.ifm, F.up, F.pad, F.kh, F.kw, F.sy, F.sx, oh, ow, ic)
    ukh, ukw = (F.kh - 1) // F.dy + 1, (F.kw - 1) // F.dx + 1
    ifm_ub, ofm_ub = a["ifm_ublock"][2], a["ofm_ublock"][2]
    ncores = F.ncores
    W = np.zeros((od, ukh, ukw, 1 if is_dw else ic), dtype=np.int64)
    bias = np.zeros(od, dtype=np.int64)
    mul = np.zeros(od, dtype=np.int64)
    shf = np.zeros(od, dtype=np.int64)
    wbuf = mem.region(F.weight_region)
    sbuf = mem.region(F.scale_region)
    blk_d = F.blk[2]
    for core in range(ncores):
        chans = np.arange(core, od, ncores)
        wb, wl = F.weights[core]
        sb, sl = F.scales[core]
        if len(chans) == 0:
            continue
        if wl == 0:
            raise ExecError("core %d has channels but no weights" % core)
        if wb + wl > len(wbuf) or sb + 10 * len(chans) > len(sbuf):
            raise ExecError("weight/scale range outside region")
        ws = _decode_weights(bytes(wbuf[wb : wb + wl]), counters)
        cbd = (blk_d + ncores - 1 - core) // ncores
        idx = _reorder_index((len(chans), ukh, ukw, 1 if is_dw else ic), ifm_ub, ofm_ub, cbd, is_dw, F.part_kernel, F.ifm.bits, max(1, 8 // F.dy), max(1, 8 // F.dx))
        if len(idx) > len(ws):
            raise ExecError("weight stream decodes to %d values, the operation needs %d" % (len(ws), len(idx)))
        sel = idx >= 0
        Wc = np.zeros(len(chans) * ukh * ukw * (1 if is_dw else ic), dtype=np.int64)
        Wc[idx[sel]] = ws[: len(idx)][sel]
        if (ws[: len(idx)][~sel] != 0).any() or (ws[len(idx):] != 0).any():
            raise ExecError("non-zero value in a weight padding position")
        W[chans] = Wc.reshape(len(chans), ukh, ukw, 1 if is_dw else ic)
        if sl < 10 * len(chans):
            raise ExecError("scale range of core %d holds %d bytes for %d channels" % (core, sl, len(chans)))
        rec = sbuf[sb : sb + 10 * len(chans)].reshape(len(chans), 10).astype(np.int64)
        b = rec[:, 0] | (rec[:, 1] << 8) | (rec[:, 2] << 16) | (rec[:, 3] << 24) | (rec[:, 4] << 32)
        b = np.where(b >= (1 << 39), b - (1 << 40), b)
        bias[chans] = b
        mul[chans] = rec[:, 5] | (rec[:, 6] << 8) | (rec[:, 7] << 16) | (rec[:, 8] << 24)
        shf[chans] = rec[:, 9] & 0x3F
    acc = np.zeros((oh, ow, od), dtype=np.int64)
    for ky in range(ukh):
        for kx in range(ukw):
            patch = xp[ky * F.dy : ky * F.dy + (oh - 1) * F.sy + 1 : F.sy, kx * F.dx : kx * F.dx + (ow - 1) * F.sx + 1 : F.sx, :]
            if is_dw:
                acc += patch * W[:, ky, kx, 0][None, None, :]
            else:
                acc += np.tensordot(patch, W[:, ky, kx, :], axes=([2], [1]))
    acc += bias[None, None, :]
    if F.acc_format == 1 or (F.ifm.bits == 16 and (mul <= 0xFFFF).all()):
        # 40-bit accumulators with the reduced 16-bit scale: single rounding as the reference int64 path
        out = np.where(shf > 0, (acc * mul + (np.int64(1) << np.maximum(shf - 1, 0))) >> shf, acc * mul) if F.rounding != 0 else None
        if out is None:
            out = v_mbqm_wide(acc, mul, shf)
    else:
        out = scale_round(acc, mul[None, None, :], shf[None, None, :], F.rounding)
    out = out + ofm_zp(F)
    lo, hi = out_range(F)
    out = np.clip(out, lo, hi)
    out = lut_apply(F, acc_name, out, mem, acc_name)
    write_fm(mem, F.ofm, out)
    counters["macs"] = counters.get("macs", 0) + int(oh * ow * od * ukh * ukw * (1 if is_dw else ic))


def v_mbqm_wide(acc, mul, shf):
    """scaling of a 40-bit accumulator in TFL rounding mode: multiplier as programmed (<= 32 bit), total right shift s; double rounding
    as gemmlowp when the value fits 32 bits, single round-half-up otherwise (the reference int64 path)"""
    m = np.broadcast_to(mul[None, None, :], acc.shape)
    s = np.broadcast_to(shf[None, None, :], acc.shape)
    small = (m <= 0xFFFF)
    single = (acc * m + np.where(s > 0, np.int64(1) << np.maximum(s - 1, 0), 0)) >> s
    fits = np.abs(acc) < (1 << 31)
    dbl = v_mbqm(np.where(fits, acc, 0), m, 31 - s)
    return np.where(small | ~fits, single, dbl)


def exec_pool(mem, F, acc_name, counters):
    oh, ow, od = F.ofm.height, F.ofm.width, F.ofm.depth
    pt, pl, pb, pr = F.pad
    if F.sub == "REDUCE_SUM":
        x = read_fm(mem, F.ifm, F.ifm.height, F.ifm.width, F.ifm.depth) - F.ifm.zero_point
        acc = x.sum(axis=2, keepdims=True)
        out = scale_round(acc, F.ofm_scale, F.ofm_shift, F.rounding) + ofm_zp(F)
        lo, hi = out_range(F)
        write_fm(mem, F.ofm, lut_apply(F, acc_name, np.clip(out, lo, hi), mem, acc_name))
        return
    raw = read_fm(mem, F.ifm, F.ifm.height, F.ifm.width, od)
    if F.up == 2:
        if F.upscale != 1:
            raise Unmodelled("transpose upscaling in pooling")
        raw = np.repeat(np.repeat(raw, 2, axis=0), 2, axis=1)
    H, Wd = raw.shape[0], raw.shape[1]
    lo, hi = out_range(F)
    if F.sub == "MAX":
        NEG = -(1 << 40)
        need_h, need_w = (oh - 1) * F.sy + F.kh, (ow - 1) * F.sx + F.kw
        xp = np.full((max(need_h, pt + H), max(need_w, pl + Wd), od), NEG, dtype=np.int64)
        xp[pt : pt + H, pl : pl + Wd, :] = raw
        out = np.full((oh, ow, od), NEG, dtype=np.int64)
        for ky in range(F.kh):
            for kx in range(F.kw):
                out = np.maximum(out, xp[ky : ky + (oh - 1) * F.sy + 1 : F.sy, kx : kx + (ow - 1) * F.sx + 1 : F.sx, :])
        if (out == NEG).any():
            raise ExecError("max-pool window without any valid element")
        out = out - F.ifm.zero_point + ofm_zp(F)
        write_fm(mem, F.ofm, lut_apply(F, acc_name, np.clip(out, lo, hi), mem, acc_name))
        return
    # AVERAGE
    x = raw - F.ifm.zero_point
    need_h, need_w = (oh - 1) * F.sy + F.kh, (ow - 1) * F.sx + F.kw
    xp = np.zeros((max(need_h, pt + H), max(need_w, pl + Wd), od), dtype=np.int64)
    cnt = np.zeros((max(need_h, pt + H), max(need_w, pl + Wd)), dtype=np.int64)
    xp[pt : pt + H, pl : pl + Wd, :] = x
    cnt[pt : pt + H, pl : pl + Wd] = 1
    acc = np.zeros((oh, ow, od), dtype=np.int64)
    n = np.zeros((oh, ow), dtype=np.int64)
    for ky in range(F.kh):
        for kx in range(F.kw):
            acc += xp[ky : ky + (oh - 1) * F.sy + 1 : F.sy, kx : kx + (ow - 1) * F.sx + 1 : F.sx, :]
            n += cnt[ky : ky + (oh - 1) * F.sy + 1 : F.sy, kx : kx + (ow - 1) * F.sx + 1 : F.sx]
    if F.global_scale:
        out = scale_round(acc, F.ofm_scale, F.ofm_shift, F.rounding) + ofm_zp(F)
        write_fm(mem, F.ofm, lut_apply(F, acc_name, np.clip(out, lo, hi), mem, acc_name))
        return
    # per-element divisor (padding present): set-valued rounding is resolved by the caller through `alternatives`
    n3 = n[:, :, None]
    half_away = np.where(acc >= 0, (acc + n3 // 2) // n3, -((-acc + n3 // 2) // n3))
    out = np.clip(half_away + ofm_zp(F), lo, hi)
    write_fm(mem, F.ofm, lut_apply(F, acc_name, out, mem, acc_name))
    counters["avgpool_padded"] = counters.get("avgpool_padded", 0) + 1


def exec_elementwise(mem, F, acc_name, counters):
    oh, ow, od = F.ofm.height, F.ofm.width, F.ofm.depth
    a = read_fm(mem, F.ifm, oh, ow, od) - F.ifm.zero_point
    b = None
    if F.has_ifm2:
        if F.scalar:
            b = np.full((oh, ow, od), F.scalar_value - F.ifm2.zero_point, dtype=np.int64)
        else:
            i2 = F.ifm2
            b = read_fm(mem, i2, i2.height, i2.width, i2.depth) - i2.zero_point
            b = np.broadcast_to(b, (oh, ow, od))
        if F.reversed:
            a, b = b, a
    sub = F.sub
    lo, hi = out_range(F)
    if sub in ("ADD", "SUB"):
        sgn = 1 if sub == "ADD" else -1
        if F.ifm.bits == 32:
            raw = a + sgn * b
            out = raw if not F.global_scale or (F.ofm_scale, F.ofm_shift) == (1, 0) else scale_round(raw, F.ofm_scale, F.ofm_shift, F.rounding)
        else:
            mode = F.ifm.scale_mode
            L = 20 if F.ifm.bits == 8 else 15
            if mode in (1, 2):
                # 32-bit operand scaling of OPA (mode 1) or OPB (mode 2); operands are already in (post-swap) a/b order
                def sc(v):
                    return v_rdbp(v_srdhm(v * (1 << L), F.opa_scale), F.opa_shift - (31 - L)) if F.opa_shift - (31 - L) >= 0 else v_srdhm(v * (1 << L), F.opa_scale) << ((31 - L) - F.opa_shift)

                xa = sc(a) if mode == 1 else a << (L - 1)
                xb = sc(b) if mode == 2 else b << (L - 1)
                raw = xa + sgn * xb
            else:
                raw = a * F.opa_scale + sgn * b * F.opb_scale
            out = scale_round(raw, F.ofm_scale, F.ofm_shift, F.rounding)
    elif sub == "MUL" and F.ifm.bits == 32 and F.ofm_scale != 1 and (F.ofm.bits == 32 or F.global_scale):
        # 32-bit operands and a 32-bit result: the product is shifted right by the programmed shift with rounding to nearest (ties away from zero) and the
        # programmed multiplier is not applied ("32 bit Mul op do not scale the value", tflite_graph_optimiser.convert_squared_difference).  Calibrated on two
        # independent lowerings: with it the 30-pass softmax lowering (which programs (2^30, 31), i.e. SRDHM(a, b)) is bit-exact with the reference kernel,
        # and the squared-difference lowering (multipliers passed as the second operand, arbitrary programmed multiplier) reproduces its reference kernel;
        # the earlier reading "product * multiplier >> (shift + 30)" coincides with this one on softmax and is refuted by squared difference (DESIGN 8.4b).
        # The MEAN lowering programs the multiplier 1, for which both readings coincide; it keeps the ordinary (product * scale) >> shift path below.
        total = F.ofm_shift
        fa, fb = a.reshape(-1).tolist(), b.reshape(-1).tolist()
        res = []
        for x, y in zip(fa, fb):
            num = int(x) * int(y)
            if total > 0:
                nudge = (1 << (total - 1)) if num >= 0 else 1 - (1 << (total - 1))
                q = abs(num + nudge) >> total
                q = q if num + nudge >= 0 else -q
            else:
                q = num
            res.append(max(-(1 << 31), min((1 << 31) - 1, q)))
        out = np.array(res, dtype=np.int64).reshape(a.shape)
        counters["mul32_shift_only"] = counters.get("mul32_shift_only", 0) + 1
    elif sub == "MUL":
        raw = a * b
        out = scale_round(raw, F.ofm_scale, F.ofm_shift, F.rounding) if (F.ofm_scale, F.ofm_shift) != (1, 0) else raw
    elif sub == "MIN":
        out = np.minimum(a, b)
    elif sub == "MAX":
        out = np.maximum(a, b)
    elif sub == "ABS":
        out = np.abs(a)
        if (F.ofm_scale, F.ofm_shift) != (0, 0):
            pass
    elif sub == "LRELU":
        out = np.where(a >= 0, a, scale_round(a, F.ofm_scale, F.ofm_shift, F.rounding))
    elif sub == "SHL":
        out = a << np.clip(b, 0, 31)
    elif sub == "SHR":
        s = np.clip(b, 0, 31)
        out = (a + np.where((s > 0) & (F.rounding != 1), np.int64(1) << np.maximum(s - 1, 0), 0)) >> s
    elif sub == "CLZ":
        u = a & 0xFFFFFFFF
        out = np.where(u == 0, 32, 31 - np.floor(np.log2(np.maximum(u, 1))).astype(np.int64))
    else:
        raise Unmodelled("elementwise " + str(sub))
    out = out + ofm_zp(F)
    out = np.clip(out, lo, hi)
    out = lut_apply(F, acc_name, out, mem, acc_name)
    write_fm(mem, F.ofm, out)


def exec_dma(mem, d):
    n = d["length"]
    src = mem.shram if d["src_internal"] else mem.region(d["src_region"])
    dst = mem.shram if d["dst_internal"] else mem.region(d["dst_region"])
    if d["src"] + n > len(src) or d["dst"] + n > len(dst):
        raise ExecError("DMA outside region")
    dst[d["dst"] : d["dst"] + n] = src[d["src"] : d["src"] + n].copy()


def run_stream(words, acc_name, mem, counters):
    events, info = decode.decode_stream(words)
    run_events(events, acc_name, mem, counters)


def run_events(events, acc_name, mem, counters):
    for ev in events:
        if ev.kind == "dma":
            exec_dma(mem, decode.dma_fields(ev.op))
            counters["dma"] = counters.get("dma", 0) + 1
        elif ev.kind == "op":
            F = decode.Fields(ev.op)
            if F.kind in ("conv", "depthwise"):
                exec_conv(mem, F, acc_name, counters)
            elif F.kind == "pool":
                exec_pool(mem, F, acc_name, counters)
            else:
                exec_elementwise(mem, F, acc_name, counters)
            counters["npu_ops_executed"] = counters.get("npu_ops_executed", 0) + 1
            k = "op:%s/%s" % (F.kind, F.sub)
            counters[k] = counters.get(k, 0) + 1
