"""Compile drivers: in-process (ethosu.vela.vela.main) with monitors installed, and the true CLI in a subprocess."""
import contextlib
import io
import os
import subprocess
import sys
import time
import traceback

from . import cfggen, repo


class CompileResult:
    def __init__(self):
        self.rc = None
        self.stdout = ""
        self.stderr = ""
        self.exc = None  # (type name, message, [(file, line, func)...])
        self.out_path = None
        self.csv_path = None
        self.elapsed = 0.0
        self.argv = None

    def ok(self):
        return self.rc == 0 and self.out_path and os.path.exists(self.out_path)

    def mech(self):
        """mechanism key for an internal failure: exception type + innermost repo frame function"""
        if not self.exc:
            return None
        et, msg, frames = self.exc
        inner = None
        for f, ln, fn in frames:
            if "/ethosu/" in f:
                inner = (os.path.basename(f), fn)
        return "%s@%s:%s" % (et, inner[0] if inner else "?", inner[1] if inner else "?")


def _paths(model_path, outdir, cfg):
    base = os.path.join(outdir, os.path.splitext(os.path.basename(model_path))[0])
    sysc = cfg["mode"][0] if cfg.get("mode") else "internal-default"
    return base + "_vela.tflite", base + "_summary_%s.csv" % sysc


def run_inproc(model_path, cfg, outdir):
    import ethosu.vela.vela as vela

    res = CompileResult()
    res.argv = cfggen.argv(cfg, model_path, outdir)
    out, csv = _paths(model_path, outdir, cfg)
    for p in (out, csv):
        if os.path.exists(p):
            os.remove(p)
    buf = io.StringIO()
    t = time.time()
    reclimit = sys.getrecursionlimit()
    # some reports are printed through a file object bound at import time (default argument sys.stdout): capture at descriptor level too
    os.makedirs(outdir, exist_ok=True)
    cap_path = os.path.join(outdir, "_stdout_%d.txt" % os.getpid())
    sys.stdout.flush()
    sys.stderr.flush()
    saved1, saved2 = os.dup(1), os.dup(2)
    cap_fd = os.open(cap_path, os.O_WRONLY | os.O_CREAT | os.O_TRUNC, 0o600)
    os.dup2(cap_fd, 1)
    os.dup2(cap_fd, 2)
    try:
        with contextlib.redirect_stdout(buf), contextlib.redirect_stderr(buf):
            res.rc = vela.main(list(res.argv))
    except SystemExit as e:
        res.rc = e.code if isinstance(e.code, int) else 2
        res.exc = None
    except BaseException as e:
        tb = traceback.extract_tb(e.__traceback__)
        res.exc = (type(e).__name__, str(e)[:500], [(f.filename, f.lineno, f.name) for f in tb])
        res.rc = -1
    finally:
        sys.setrecursionlimit(reclimit)
        try:
            sys.__stdout__.flush()
            sys.__stderr__.flush()
        except Exception:
            pass
        os.dup2(saved1, 1)
        os.dup2(saved2, 2)
        os.close(saved1)
        os.close(saved2)
        os.close(cap_fd)
    res.elapsed = time.time() - t
    try:
        with open(cap_path, errors="replace") as f:
            low = f.read()
        os.remove(cap_path)
    except OSError:
        low = ""
    res.stdout = low + buf.getvalue()
    res.out_path, res.csv_path = out, csv
    return res


def run_cli(model_path, cfg, outdir, cwd=None, env_extra=None, timeout=300, extra_argv=None, pythonpath=True):
    res = CompileResult()
    res.argv = cfggen.argv(cfg, model_path, outdir) + list(extra_argv or [])
    out, csv = _paths(model_path, outdir, cfg)
    for p in (out, csv):
        if os.path.exists(p):
            os.remove(p)
    env = repo.child_env(env_extra)
    launcher = os.path.join(repo.VERIF, "vv", "vela_cli.py")
    os.makedirs(cwd or outdir, exist_ok=True)
    t = time.time()
    try:
        p = subprocess.run([sys.executable, launcher] + res.argv, cwd=cwd or outdir, env=env, capture_output=True, text=True, timeout=timeout)
        res.rc, res.stdout, res.stderr = p.returncode, p.stdout, p.stderr
    except subprocess.TimeoutExpired as e:
        res.rc = None
        res.stdout = (e.stdout or b"").decode("utf8", "replace") if isinstance(e.stdout, bytes) else (e.stdout or "")
        res.stderr = "TIMEOUT"
    res.elapsed = time.time() - t
    res.out_path, res.csv_path = out, csv
    if res.rc not in (0, None) and "Traceback (most recent call last)" in res.stderr:
        res.exc = parse_traceback(res.stderr)
    return res


def parse_traceback(text):
    import re

    i = text.rfind("Traceback (most recent call last)")
    lines = text[i:].splitlines()
    frames = []
    for ln in lines:
        m = re.match(r'\s*File "(.+)", line (\d+), in (.+)', ln)
        if m:
            frames.append((m.group(1), int(m.group(2)), m.group(3)))
    last = ""
    for ln in reversed(lines):
        if ln and not ln.startswith(" "):
            last = ln
            break
    et, _, msg = last.partition(":")
    return (et.strip().split(".")[-1], msg.strip()[:500], frames)


# ------------------------------------------------------------------------------------------------ monitors / hooks
class StreamLog:
    """Records every generate_command_stream call made by the pipeline: (npu_op_list, words, npu_op_to_cmd, arch)."""

    def __init__(self):
        self.calls = []
        self.evals = 0

    def install(self):
        import ethosu.vela.high_level_command_to_npu_op as hl
        import ethosu.vela.register_command_stream_generator as rg

        orig = rg.generate_command_stream
        if getattr(orig, "_vv_wrapped", False):
            orig = orig._vv_orig
        log = self

        def wrap(npu_op_list, arch, verbose, mem_limits, add_to_debug_db=None, npu_op_to_cmd=None):
            ops = list(npu_op_list)
            res = orig(npu_op_list, arch, verbose, mem_limits, add_to_debug_db, npu_op_to_cmd)
            log.evals += 1
            log.calls.append({"ops": ops, "words": list(res), "op_to_cmd": dict(npu_op_to_cmd or {}), "arch": arch, "mem_limits": dict(mem_limits)})
            return res

        wrap._vv_wrapped = True
        wrap._vv_orig = orig
        rg.generate_command_stream = wrap
        hl.generate_command_stream = wrap
        return self
