"""Independent NumPy TFLite reference interpreter for the generated operator subset (integer kernels written from the TFLite reference kernels).

Operates on fbr.RModel (so it executes both source models and the CPU operators of output models).  Values are int64 arrays of quantised codes.
Operators outside the subset raise Unsupported (the case is then inconclusive, never held).
"""
import math

import numpy as np

from . import refmath as R

BO = dict(ADD=0, AVERAGE_POOL_2D=1, CONCATENATION=2, CONV_2D=3, DEPTHWISE_CONV_2D=4, FULLY_CONNECTED=9, LOGISTIC=14, MAX_POOL_2D=17, MUL=18, RELU=19, RELU_N1_TO_1=20, RELU6=21,
          RESHAPE=22, RESIZE_BILINEAR=23, SOFTMAX=25, TANH=28, CUSTOM=32, PAD=34, TRANSPOSE=39, MEAN=40, SUB=41, SQUEEZE=43, STRIDED_SLICE=45, SPLIT=49, MAXIMUM=55, MINIMUM=57,
          NEG=59, SLICE=65, SPLIT_V=102, TRANSPOSE_CONV=67, EXPAND_DIMS=70, RESIZE_NEAREST_NEIGHBOR=97, LEAKY_RELU=98, ABS=101, REVERSE_V2=105, QUANTIZE=114, HARD_SWISH=117, FLOOR_DIV=90, DEQUANTIZE=6, PACK=83, UNPACK=88, EXP=47, SQUARED_DIFFERENCE=99)
NAME = {v: k for k, v in BO.items()}
RANGE = {"int8": (-128, 127), "uint8": (0, 255), "int16": (-32768, 32767), "int32": (-(2 ** 31), 2 ** 31 - 1)}
APPROX = {"EXP", "SQUARED_DIFFERENCE", "LOGISTIC", "TANH", "LEAKY_RELU", "HARD_SWISH", "SOFTMAX", "MEAN", "RESIZE_BILINEAR", "RESIZE_NEAREST_NEIGHBOR", "AVERAGE_POOL_2D"}


class Unsupported(Exception):
    pass


# ---- vectorised gemmlowp
def v_srdhm(a, b):
    """SaturatingRoundingDoublingHighMul on int64 arrays holding int32 values; b scalar or array"""
    a = np.asarray(a, dtype=np.int64)
    ab = a * np.int64(b) if np.isscalar(b) else a * np.asarray(b, dtype=np.int64)
    nudge = np.where(ab >= 0, np.int64(1 << 30), np.int64(1 - (1 << 30)))
    q = ab + nudge
    res = np.where(q >= 0, q >> 31, -((-q) >> 31))  # truncation toward zero
    return res


def v_rdbp(x, e):
    """RoundingDivideByPOT, e scalar or array >= 0"""
    x = np.asarray(x, dtype=np.int64)
    e = np.asarray(e, dtype=np.int64)
    mask = (np.int64(1) << e) - 1
    rem = x & mask
    thr = (mask >> 1) + (x < 0)
    return (x >> e) + (rem > thr)


def v_mbqm(x, m, shift):
    """MultiplyByQuantizedMultiplier(x, m, shift) with shift in TFLite convention (positive = left); m, shift scalars or arrays broadcastable to x"""
    x = np.asarray(x, dtype=np.int64)
    shift = np.asarray(shift, dtype=np.int64)
    left = np.maximum(shift, 0)
    right = np.maximum(-shift, 0)
    return v_rdbp(v_srdhm(x * (np.int64(1) << left), m), right)


def act_range(act, scale, zp, dtype):
    lo, hi = RANGE[dtype]

    def q(f):
        v = float(np.float32(f) / np.float32(scale))
        return zp + int(math.floor(abs(v) + 0.5) * (1 if v >= 0 else -1))

    if act == 1:
        return max(lo, q(0.0)), hi
    if act == 2:
        return max(lo, q(-1.0)), min(hi, q(1.0))
    if act == 3:
        return max(lo, q(0.0)), min(hi, q(6.0))
    if act == 0:
        return lo, hi
    raise Unsupported("fused activation %d" % act)


def pad_amounts(in_sz, k_dil, stride, padding, out_sz):
    if padding == 1:  # VALID
        return 0
    total = max((out_sz - 1) * stride + k_dil - in_sz, 0)
    return total // 2


class Interp:
    def __init__(self, model, sg=0):
        self.m = model
        self.sg = model.subgraphs[sg]
        self.vals = {}
        self.approx_ops = []

    def const(self, ti):
        T = self.sg.tensors[ti]
        if T.data is None:
            return None
        return np.frombuffer(bytes(T.data), dtype=np.dtype(T.dtype)).astype(np.int64).reshape(T.shape)

    def get(self, ti):
        if ti in self.vals:
            return self.vals[ti]
        c = self.const(ti)
        if c is None:
            raise Unsupported("tensor %s has no value" % self.sg.tensors[ti].name)
        return c

    def q(self, ti):
        T = self.sg.tensors[ti]
        if not T.scale:
            raise Unsupported("tensor %s not quantised" % T.name)
        return T.scale, (T.zp or [0] * len(T.scale)), T.dtype

    def run(self, inputs, ops=None):
        """inputs: {tensor index: int64 array}. Runs all operators (or the listed op indices) in order."""
        self.vals.update(inputs)
        for k, op in enumerate(self.sg.ops):
            if ops is not None and k not in ops:
                continue
            self.exec_op(op)
        return self.vals

    def exec_op(self, op):
        name = NAME.get(op.builtin)
        if name is None:
            raise Unsupported("builtin %d" % op.builtin)
        fn = getattr(self, "op_" + name, None)
        if fn is None:
            raise Unsupported(name)
        outs = fn(op)
        if not isinstance(outs, (list, tuple)):
            outs = [outs]
        for ti, val in zip(op.outputs, outs):
            T = self.sg.tensors[ti]
            lo, hi = RANGE.get(T.dtype, (None, None))
            val = np.asarray(val, dtype=np.float64 if T.dtype.startswith("float") else np.int64).reshape(T.shape)
            if lo is not None and (val.min(initial=0) < lo or val.max(initial=0) > hi):
                raise AssertionError("reference produced out-of-range value for %s" % T.name)
            self.vals[ti] = val
        if name in APPROX:
            self.approx_ops.append(name)

    # ---------------------------------------------------------------- convolution family
    def _conv_params(self, op, per_channel_allowed=True, fc=False):
        sx, zx, dt = self.q(op.inputs[0])
        sw, zw, wdt = self.q(op.inputs[1])
        so, zo, odt = self.q(op.outputs[0])
        nch = len(sw)
        mult = []
        for c in range(nch):
            if dt == "uint8" or fc:
                real = float(np.float64(np.float32(np.float32(sx[0]) * np.float32(sw[c]))) / np.float64(np.float32(so[0])))
            else:
                real = float(np.float64(np.float32(sx[0])) * np.float64(np.float32(sw[c])) / np.float64(np.float32(so[0])))
            mult.append(R.quantize_multiplier(real))
        return (sx[0], zx[0], dt), (sw, zw, wdt), (so[0], zo[0], odt), mult

    def _bias(self, op, n):
        if len(op.inputs) > 2 and op.inputs[2] >= 0:
            b = self.const(op.inputs[2])
            if b is None:
                raise Unsupported("non-constant bias")
            return b.reshape(-1), self.sg.tensors[op.inputs[2]].dtype
        return np.zeros(n, dtype=np.int64), "int32"

    def _requant_conv(self, acc, mult, bias_dtype, ifm_dtype, zo, odt, act, so):
        nch = acc.shape[-1]
        ms = np.array([m for m, e in mult] * (nch if len(mult) == 1 else 1), dtype=np.int64)
        es = np.array([e for m, e in mult] * (nch if len(mult) == 1 else 1), dtype=np.int64)
        if ifm_dtype == "int16" and bias_dtype == "int64":
            red = np.where(ms < 0x7FFF0000, (ms + (1 << 15)) >> 16, 0x7FFF)
            total_shift = 15 - es
            out = (acc * red + (np.int64(1) << (total_shift - 1))) >> total_shift
        else:
            out = v_mbqm(acc, ms, es)
        out = out + zo
        lo, hi = act_range(act, so, zo, odt)
        return np.clip(out, lo, hi)

    def op_CONV_2D(self, op):
        o = op.options
        padding, sw_, sh_, act, dw_, dh_ = o.scalar(0, "b", 0), o.scalar(1, "i", 0), o.scalar(2, "i", 0), o.scalar(3, "b", 0), o.scalar(4, "i", 1), o.scalar(5, "i", 1)
        (sx, zx, dt), (swv, zw, wdt), (so, zo, odt), mult = self._conv_params(op)
        x = self.get(op.inputs[0])
        w = self.const(op.inputs[1])
        if w is None:
            w = self.get(op.inputs[1])  # weights computed at run time (the operator then stays on the CPU)
        oc, kh, kw, ic = w.shape
        groups = 1
        if x.shape[3] != ic:
            if ic == 0 or x.shape[3] % ic or oc % (x.shape[3] // ic):
                raise Unsupported("filter depth does not divide the IFM depth")
            groups = x.shape[3] // ic  # grouped convolution: output channel block g sees input channel block g only
        bias, bdt = self._bias(op, oc)
        n, h, wd, _ = x.shape
        oh, ow = self.sg.tensors[op.outputs[0]].shape[1:3]
        pt = pad_amounts(h, (kh - 1) * dh_ + 1, sh_, padding, oh)
        pl = pad_amounts(wd, (kw - 1) * dw_ + 1, sw_, padding, ow)
        need_h = (oh - 1) * sh_ + (kh - 1) * dh_ + 1
        need_w = (ow - 1) * sw_ + (kw - 1) * dw_ + 1
        xp = np.zeros((n, max(need_h, pt + h), max(need_w, pl + wd), ic * groups), dtype=np.int64)
        xp[:, pt : pt + h, pl : pl + wd, :] = x - zx
        wz = w - np.array(zw if len(zw) == oc else [zw[0]] * oc, dtype=np.int64).reshape(oc, 1, 1, 1)
        acc = np.zeros((n, oh, ow, oc), dtype=np.int64)
        for ky in range(kh):
            for kx in range(kw):
                patch = xp[:, ky * dh_ : ky * dh_ + (oh - 1) * sh_ + 1 : sh_, kx * dw_ : kx * dw_ + (ow - 1) * sw_ + 1 : sw_, :]
                if groups == 1:
                    acc += np.tensordot(patch, wz[:, ky, kx, :], axes=([3], [1]))
                else:
                    ocg = oc // groups
                    for gi in range(groups):
                        acc[..., gi * ocg : (gi + 1) * ocg] += np.tensordot(patch[..., gi * ic : (gi + 1) * ic], wz[gi * ocg : (gi + 1) * ocg, ky, kx, :], axes=([3], [1]))
        acc += bias.reshape(1, 1, 1, oc)
        return self._requant_conv(acc, mult, bdt, dt, zo, odt, act, so)

    def op_DEPTHWISE_CONV_2D(self, op):
        o = op.options
        padding, sw_, sh_, dm, act, dw_, dh_ = (o.scalar(0, "b", 0), o.scalar(1, "i", 0), o.scalar(2, "i", 0), o.scalar(3, "i", 0), o.scalar(4, "b", 0), o.scalar(5, "i", 1), o.scalar(6, "i", 1))
        (sx, zx, dt), (swv, zw, wdt), (so, zo, odt), mult = self._conv_params(op)
        x = self.get(op.inputs[0])
        w = self.const(op.inputs[1])
        _, kh, kw, oc = w.shape
        n, h, wd, ic = x.shape
        if oc != ic * dm:
            raise Unsupported("depthwise shape")
        bias, bdt = self._bias(op, oc)
        oh, ow = self.sg.tensors[op.outputs[0]].shape[1:3]
        pt = pad_amounts(h, (kh - 1) * dh_ + 1, sh_, padding, oh)
        pl = pad_amounts(wd, (kw - 1) * dw_ + 1, sw_, padding, ow)
        need_h = (oh - 1) * sh_ + (kh - 1) * dh_ + 1
        need_w = (ow - 1) * sw_ + (kw - 1) * dw_ + 1
        xp = np.zeros((n, max(need_h, pt + h), max(need_w, pl + wd), ic), dtype=np.int64)
        xp[:, pt : pt + h, pl : pl + wd, :] = x - zx
        xp = np.repeat(xp, dm, axis=3)
        wz = w[0] - np.array(zw if len(zw) == oc else [zw[0]] * oc, dtype=np.int64).reshape(1, 1, oc)
        acc = np.zeros((n, oh, ow, oc), dtype=np.int64)
        for ky in range(kh):
            for kx in range(kw):
                patch = xp[:, ky * dh_ : ky * dh_ + (oh - 1) * sh_ + 1 : sh_, kx * dw_ : kx * dw_ + (ow - 1) * sw_ + 1 : sw_, :]
                acc += patch * wz[ky, kx, :]
        acc += bias.reshape(1, 1, 1, oc)
        return self._requant_conv(acc, mult, bdt, dt, zo, odt, act, so)

    def op_TRANSPOSE_CONV(self, op):
        """reference_integer_ops::TransposeConv: scatter-accumulate, then bias and per-channel requantisation (no fused activation in this schema)"""
        o = op.options
        padding, sw_, sh_ = o.scalar(0, "b", 0), o.scalar(1, "i", 0), o.scalar(2, "i", 0)
        sx, zx, dt = self.q(op.inputs[2])
        sw, zw, wdt = self.q(op.inputs[1])
        so, zo, odt = self.q(op.outputs[0])
        if dt == "int16":
            raise Unsupported("int16 transpose convolution")
        mult = []
        for c in range(len(sw)):
            if dt == "uint8":
                real = float(np.float64(np.float32(np.float32(sx[0]) * np.float32(sw[c]))) / np.float64(np.float32(so[0])))
            else:
                real = float(np.float64(np.float32(sx[0])) * np.float64(np.float32(sw[c])) / np.float64(np.float32(so[0])))
            mult.append(R.quantize_multiplier(real))
        x = self.get(op.inputs[2])
        w = self.const(op.inputs[1])
        if w is None:
            w = self.get(op.inputs[1])  # weights computed at run time (the operator then stays on the CPU)
        oc, kh, kw, ic = w.shape
        n, h, wd, _ = x.shape
        oh, ow = self.sg.tensors[op.outputs[0]].shape[1:3]
        if len(op.inputs) > 3 and op.inputs[3] >= 0:
            bias = self.const(op.inputs[3]).reshape(-1)
        else:
            bias = np.zeros(oc, dtype=np.int64)

        def pad_of(out_sz, k, stride):
            fwd = -(-out_sz // stride) if padding == 0 else (out_sz + stride - k) // stride
            return max(0, (fwd - 1) * stride + k - out_sz) // 2

        pt, pl = pad_of(oh, kh, sh_), pad_of(ow, kw, sw_)
        wz = w - np.array(zw if len(zw) == oc else [zw[0]] * oc, dtype=np.int64).reshape(oc, 1, 1, 1)
        xz = x - zx[0]
        big = np.zeros((n, (h - 1) * sh_ + kh + pt, (wd - 1) * sw_ + kw + pl, oc), dtype=np.int64)  # origin shifted by (pt, pl) is cropped below
        for ky in range(kh):
            for kx in range(kw):
                contrib = np.tensordot(xz, wz[:, ky, kx, :], axes=([3], [1]))  # n,h,w,oc
                big[:, ky : ky + (h - 1) * sh_ + 1 : sh_, kx : kx + (wd - 1) * sw_ + 1 : sw_, :] += contrib
        acc = np.zeros((n, oh, ow, oc), dtype=np.int64)
        src = big[:, pt : pt + oh, pl : pl + ow, :]
        acc[:, : src.shape[1], : src.shape[2], :] = src
        acc += bias.reshape(1, 1, 1, oc)
        return self._requant_conv(acc, mult, "int32", dt, zo[0], odt, 0, so[0])

    def op_FULLY_CONNECTED(self, op):
        o = op.options
        act = o.scalar(0, "b", 0) if o is not None else 0
        (sx, zx, dt), (swv, zw, wdt), (so, zo, odt), mult = self._conv_params(op, fc=True)
        x = self.get(op.inputs[0])
        w = self.const(op.inputs[1])
        if w is None:
            w = self.get(op.inputs[1])  # weights computed at run time (the operator then stays on the CPU)
        oc, ic = w.shape
        x2 = x.reshape(-1, ic)
        bias, bdt = self._bias(op, oc)
        acc = (x2 - zx) @ (w - zw[0]).T + bias.reshape(1, oc)
        return self._requant_conv(acc, mult, bdt, dt, zo, odt, act, so)

    # ---------------------------------------------------------------- pooling
    def _pool(self, op, kind):
        o = op.options
        padding, sw_, sh_, fw, fh, act = o.scalar(0, "b", 0), o.scalar(1, "i", 0), o.scalar(2, "i", 0), o.scalar(3, "i", 0), o.scalar(4, "i", 0), o.scalar(5, "b", 0)
        sx, zx, dt = self.q(op.inputs[0])
        so, zo, odt = self.q(op.outputs[0])
        x = self.get(op.inputs[0])
        n, h, wd, c = x.shape
        oh, ow = self.sg.tensors[op.outputs[0]].shape[1:3]
        pt = pad_amounts(h, fh, sh_, padding, oh)
        pl = pad_amounts(wd, fw, sw_, padding, ow)
        out = np.zeros((n, oh, ow, c), dtype=np.int64)
        for oy in range(oh):
            y0, y1 = max(0, oy * sh_ - pt), min(h, oy * sh_ - pt + fh)
            for ox in range(ow):
                x0, x1 = max(0, ox * sw_ - pl), min(wd, ox * sw_ - pl + fw)
                win = x[:, y0:y1, x0:x1, :]
                if kind == "max":
                    out[:, oy, ox, :] = win.max(axis=(1, 2))
                else:
                    cnt = (y1 - y0) * (x1 - x0)
                    acc = win.sum(axis=(1, 2))
                    out[:, oy, ox, :] = np.where(acc > 0, (acc + cnt // 2) // cnt, -((-acc + cnt // 2) // cnt))
        lo, hi = act_range(act, so[0], zo[0], odt)
        if sx[0] != so[0] or zx[0] != zo[0]:
            raise Unsupported("pool with requantisation")
        return np.clip(out, lo, hi)

    def op_MAX_POOL_2D(self, op):
        return self._pool(op, "max")

    def op_AVERAGE_POOL_2D(self, op):
        return self._pool(op, "avg")

    # ---------------------------------------------------------------- elementwise
    def _addsub(self, op, sign):
        act = op.options.scalar(0, "b", 0) if op.options is not None else 0
        s1, z1, dt = self.q(op.inputs[0])
        s2, z2, _ = self.q(op.inputs[1])
        so, zo, odt = self.q(op.outputs[0])
        if dt == "int32":
            raise Unsupported("int32 add")
        a, b = self.get(op.inputs[0]), self.get(op.inputs[1])
        L = 15 if dt == "int16" else 20
        f1, f2, fo = float(np.float32(s1[0])), float(np.float32(s2[0])), float(np.float32(so[0]))
        twice = 2.0 * max(f1, f2)
        m1, e1 = R.quantize_multiplier(f1 / twice)
        m2, e2 = R.quantize_multiplier(f2 / twice)
        mo, eo = R.quantize_multiplier(twice / ((1 << L) * fo))
        sa = v_mbqm((a - z1[0]) * (1 << L), m1, e1)
        sb = v_mbqm((b - z2[0]) * (1 << L), m2, e2)
        raw = sa + sign * sb
        out = v_mbqm(raw, mo, eo) + zo[0]
        lo, hi = act_range(act, so[0], zo[0], odt)
        return np.clip(out, lo, hi)

    def op_ADD(self, op):
        return self._addsub(op, 1)

    def op_SUB(self, op):
        return self._addsub(op, -1)

    def op_MUL(self, op):
        act = op.options.scalar(0, "b", 0) if op.options is not None else 0
        s1, z1, dt = self.q(op.inputs[0])
        s2, z2, _ = self.q(op.inputs[1])
        so, zo, odt = self.q(op.outputs[0])
        if dt == "int32":
            raise Unsupported("int32 mul")
        a, b = self.get(op.inputs[0]), self.get(op.inputs[1])
        raw = (a - z1[0]) * (b - z2[0])
        lo, hi = act_range(act, so[0], zo[0], odt)
        outs = []
        # TFLite computes the real multiplier in float, TFLM in double: both are reference semantics
        for real in (float(np.float32(np.float32(np.float32(s1[0]) * np.float32(s2[0])) / np.float32(so[0]))),
                     float(np.float64(np.float32(s1[0])) * np.float64(np.float32(s2[0])) / np.float64(np.float32(so[0])))):
            m, e = R.quantize_multiplier(real)
            outs.append(np.clip(v_mbqm(raw, m, e) + zo[0], lo, hi))
        self.alt = getattr(self, "alt", {})
        self.alt[op.outputs[0]] = outs[1]
        return outs[0]

    def _minmax(self, op, fn):
        s1, z1, dt = self.q(op.inputs[0])
        s2, z2, _ = self.q(op.inputs[1])
        so, zo, _ = self.q(op.outputs[0])
        if (s1[0], z1[0]) != (s2[0], z2[0]) or (s1[0], z1[0]) != (so[0], zo[0]):
            raise Unsupported("min/max with differing quantisation")
        return fn(self.get(op.inputs[0]), self.get(op.inputs[1]))

    def op_MINIMUM(self, op):
        return self._minmax(op, np.minimum)

    def op_MAXIMUM(self, op):
        return self._minmax(op, np.maximum)

    def _relu(self, op, act):
        sx, zx, dt = self.q(op.inputs[0])
        so, zo, odt = self.q(op.outputs[0])
        x = self.get(op.inputs[0])
        lo, hi = act_range(act, so[0], zo[0], odt)
        if (sx[0], zx[0]) == (so[0], zo[0]):
            return np.clip(x, lo, hi)
        m, e = R.quantize_multiplier(float(np.float64(np.float32(sx[0])) / np.float64(np.float32(so[0]))))
        return np.clip(v_mbqm(x - zx[0], m, e) + zo[0], lo, hi)

    def op_RELU(self, op):
        return self._relu(op, 1)

    def op_RELU6(self, op):
        return self._relu(op, 3)

    def op_RELU_N1_TO_1(self, op):
        return self._relu(op, 2)

    def op_ABS(self, op):
        sx, zx, dt = self.q(op.inputs[0])
        so, zo, odt = self.q(op.outputs[0])
        if (sx[0], zx[0]) != (so[0], zo[0]):
            raise Unsupported("abs with requantisation")
        lo, hi = RANGE[odt]
        return np.clip(np.abs(self.get(op.inputs[0]) - zx[0]) + zo[0], lo, hi)

    def op_DEQUANTIZE(self, op):
        sx, zx, dt = self.q(op.inputs[0])
        x = self.get(op.inputs[0])
        return (np.float32(sx[0]) * (x - zx[0]).astype(np.float32)).astype(np.float64)  # the reference kernel: scale * (value - zero_point) in float32

    def op_QUANTIZE(self, op):
        sx, zx, dt = self.q(op.inputs[0])
        so, zo, odt = self.q(op.outputs[0])
        m, e = R.quantize_multiplier(float(np.float64(np.float32(sx[0])) / np.float64(np.float32(so[0]))))
        lo, hi = RANGE[odt]
        return np.clip(v_mbqm(self.get(op.inputs[0]) - zx[0], m, e) + zo[0], lo, hi)

    # ---------------------------------------------------------------- approximate-class operators: real function, correctly rounded
    def _real_unary(self, op, f):
        sx, zx, dt = self.q(op.inputs[0])
        so, zo, odt = self.q(op.outputs[0])
        x = self.get(op.inputs[0])
        lo, hi = RANGE[odt]
        xr = (x - zx[0]).astype(np.float64) * float(np.float32(sx[0]))
        y = f(xr) / float(np.float32(so[0]))
        return np.clip(np.where(y >= 0, np.floor(y + 0.5), -np.floor(-y + 0.5)).astype(np.int64) + zo[0], lo, hi)

    def op_LOGISTIC(self, op):
        return self._real_unary(op, lambda v: 1.0 / (1.0 + np.exp(-v)))

    def op_TANH(self, op):
        return self._real_unary(op, np.tanh)

    def op_LEAKY_RELU(self, op):
        alpha = float(np.float32(op.options.scalar(0, "f", 0.0)))
        return self._real_unary(op, lambda v: np.where(v >= 0, v, v * alpha))

    def op_EXP(self, op):
        return self._real_unary(op, np.exp)

    def op_SQUARED_DIFFERENCE(self, op):
        # reference_integer_ops / squared_difference.cc, 8-bit: both operands brought to twice the larger scale with 7 extra bits, difference squared, one rescale
        s1, z1, dt = self.q(op.inputs[0])
        s2, z2, _ = self.q(op.inputs[1])
        so, zo, odt = self.q(op.outputs[0])
        if dt not in ("int8", "uint8"):
            raise Unsupported("squared difference on " + dt)
        left_shift = 7
        twice_max = 2.0 * max(float(np.float32(s1[0])), float(np.float32(s2[0])))
        m1, e1 = R.quantize_multiplier(float(np.float32(s1[0])) / twice_max)
        m2, e2 = R.quantize_multiplier(float(np.float32(s2[0])) / twice_max)
        mo, eo = R.quantize_multiplier(twice_max * twice_max / ((1 << (2 * left_shift)) * float(np.float32(so[0]))))
        a = v_mbqm((self.get(op.inputs[0]) - z1[0]) * (1 << left_shift), m1, e1)
        b = v_mbqm((self.get(op.inputs[1]) - z2[0]) * (1 << left_shift), m2, e2)
        d = a - b
        sq = d * d
        if sq.max(initial=0) >= 2 ** 31:
            raise Unsupported("squared difference beyond the 32-bit range of the reference kernel")
        lo, hi = RANGE[odt]
        return np.clip(v_mbqm(sq, mo, eo) + zo[0], lo, hi)

    def op_HARD_SWISH(self, op):
        return self._real_unary(op, lambda v: v * np.clip(v + 3.0, 0.0, 6.0) / 6.0)

    def op_SOFTMAX(self, op):
        beta = float(np.float32(op.options.scalar(0, "f", 0.0)))
        sx, zx, dt = self.q(op.inputs[0])
        so, zo, odt = self.q(op.outputs[0])
        x = self.get(op.inputs[0])
        lo, hi = RANGE[odt]
        if dt in ("int8", "uint8") and odt == dt and float(np.float32(so[0])) == 1.0 / 256 and zo[0] == lo:
            # reference_ops::Softmax, 8-bit fixed-point kernel (gemmlowp), row by row
            mult, ls, dmin = R.softmax_params(beta, float(np.float32(sx[0])))
            rows = x.reshape(-1, x.shape[-1])
            try:
                out = np.array([R.softmax_row_8bit([int(v) for v in row], mult, ls, dmin, lo, hi) for row in rows], dtype=np.int64)
            except OverflowError as e:
                raise Unsupported(str(e))
            self.softmax_kernel = "fixed-point"
            return out.reshape(x.shape)
        xr = (x - x.max(axis=-1, keepdims=True)).astype(np.float64) * float(np.float32(sx[0])) * beta
        ex = np.exp(xr)
        y = ex / ex.sum(axis=-1, keepdims=True) / float(np.float32(so[0]))
        return np.clip(np.floor(y + 0.5).astype(np.int64) + zo[0], lo, hi)

    def op_MEAN(self, op):
        sx, zx, dt = self.q(op.inputs[0])
        so, zo, odt = self.q(op.outputs[0])
        x = self.get(op.inputs[0])
        axes = tuple(int(a) for a in self.const(op.inputs[1]).reshape(-1))
        keep = bool(op.options.scalar(0, "B", 0)) if op.options is not None else False
        lo, hi = RANGE[odt]
        m = (x - zx[0]).astype(np.float64).mean(axis=axes, keepdims=keep) * float(np.float32(sx[0])) / float(np.float32(so[0]))
        return np.clip(np.where(m >= 0, np.floor(m + 0.5), -np.floor(-m + 0.5)).astype(np.int64) + zo[0], lo, hi)

    def _resize(self, op, bilinear):
        o = op.options
        if bilinear:
            ac, hp = bool(o.scalar(2, "B", 0)), bool(o.scalar(3, "B", 0))
        else:
            ac, hp = bool(o.scalar(0, "B", 0)), bool(o.scalar(1, "B", 0))
        x = self.get(op.inputs[0])
        n, h, w, c = x.shape
        oh, ow = self.sg.tensors[op.outputs[0]].shape[1:3]

        def scale(i, o_):
            return (i - 1) / (o_ - 1) if (ac and o_ > 1) else i / o_

        sy, sxx = scale(h, oh), scale(w, ow)
        out = np.zeros((n, oh, ow, c), dtype=np.float64)
        for oy in range(oh):
            fy = (oy + 0.5) * sy - 0.5 if hp else oy * sy
            for ox in range(ow):
                fx = (ox + 0.5) * sxx - 0.5 if hp else ox * sxx
                if bilinear:
                    y0 = int(math.floor(fy))
                    x0 = int(math.floor(fx))
                    wy, wx = fy - y0, fx - x0
                    ya, yb = min(max(y0, 0), h - 1), min(max(y0 + 1, 0), h - 1)
                    xa, xb = min(max(x0, 0), w - 1), min(max(x0 + 1, 0), w - 1)
                    out[:, oy, ox, :] = (x[:, ya, xa, :] * (1 - wy) * (1 - wx) + x[:, ya, xb, :] * (1 - wy) * wx + x[:, yb, xa, :] * wy * (1 - wx) + x[:, yb, xb, :] * wy * wx)
                else:
                    fy2 = (oy + 0.5) * sy if hp else oy * sy
                    fx2 = (ox + 0.5) * sxx if hp else ox * sxx
                    iy = int(math.floor(fy2 + 0.5)) if ac else int(math.floor(fy2))
                    ix = int(math.floor(fx2 + 0.5)) if ac else int(math.floor(fx2))
                    out[:, oy, ox, :] = x[:, min(max(iy, 0), h - 1), min(max(ix, 0), w - 1), :]
        return np.where(out >= 0, np.floor(out + 0.5), -np.floor(-out + 0.5)).astype(np.int64)

    def op_RESIZE_BILINEAR(self, op):
        return self._resize(op, True)

    def op_RESIZE_NEAREST_NEIGHBOR(self, op):
        return self._resize(op, False)

    # ---------------------------------------------------------------- memory-only
    def op_RESHAPE(self, op):
        return self.get(op.inputs[0]).reshape(self.sg.tensors[op.outputs[0]].shape)

    op_SQUEEZE = op_RESHAPE
    op_EXPAND_DIMS = op_RESHAPE

    def op_CONCATENATION(self, op):
        axis = op.options.scalar(0, "i", 0)
        so, zo, _ = self.q(op.outputs[0])
        parts = []
        requant = False
        for i in op.inputs:
            s, z, dt = self.q(i)
            if (s[0], z[0]) != (so[0], zo[0]):
                if dt != "uint8":
                    raise Unsupported("concat with requantisation of %s" % dt)
                # reference_ops::ConcatenationWithScaling (uint8): float arithmetic, TfLiteRound, clamp to [0, 255]
                inv = np.float32(1.0) / np.float32(so[0])
                scale = np.float32(s[0]) * inv
                bias = np.float32(-z[0]) * scale
                v = self.get(i).astype(np.float32) * scale + bias
                r = np.where(v >= 0, np.floor(v + np.float32(0.5)), -np.floor(-v + np.float32(0.5))).astype(np.int64) + zo[0]
                parts.append(np.clip(r, 0, 255))
                requant = True
            else:
                parts.append(self.get(i))
        if requant:
            self.approx_ops.append("CONCATENATION")
        return np.concatenate(parts, axis=axis)

    def op_PACK(self, op):
        axis = op.options.scalar(1, "i", 0)
        return np.stack([self.get(i) for i in op.inputs], axis=axis)

    def op_UNPACK(self, op):
        axis = op.options.scalar(1, "i", 0)
        x = self.get(op.inputs[0])
        return [np.take(x, k, axis=axis) for k in range(x.shape[axis])]

    def op_SPLIT_V(self, op):
        sizes = [int(v) for v in self.const(op.inputs[1]).reshape(-1)]
        axis = int(self.const(op.inputs[2]).reshape(-1)[0])
        x = self.get(op.inputs[0])
        cuts = np.cumsum(sizes)[:-1]
        return np.split(x, cuts, axis=axis)

    def op_SPLIT(self, op):
        axis = int(self.const(op.inputs[0]).reshape(-1)[0])
        n = op.options.scalar(0, "i", 0)
        return np.split(self.get(op.inputs[1]), n, axis=axis)

    def op_SLICE(self, op):
        x = self.get(op.inputs[0])
        b = self.const(op.inputs[1]).reshape(-1)
        s = self.const(op.inputs[2]).reshape(-1)
        idx = tuple(slice(int(bb), int(bb) + (int(ss) if ss >= 0 else x.shape[i] - int(bb))) for i, (bb, ss) in enumerate(zip(b, s)))
        return x[idx]

    def op_STRIDED_SLICE(self, op):
        o = op.options
        if any(o.scalar(k, "i", 0) for k in range(5)):
            raise Unsupported("strided slice masks")
        x = self.get(op.inputs[0])
        b, e, st = (self.const(op.inputs[k]).reshape(-1) for k in (1, 2, 3))
        return x[tuple(slice(int(bb), int(ee), int(ss)) for bb, ee, ss in zip(b, e, st))]

    def op_PAD(self, op):
        x = self.get(op.inputs[0])
        p = self.const(op.inputs[1]).reshape(-1, 2)
        s, z, _ = self.q(op.outputs[0])
        return np.pad(x, [(int(a), int(b)) for a, b in p], constant_values=z[0])

    def op_TRANSPOSE(self, op):
        return np.transpose(self.get(op.inputs[0]), [int(v) for v in self.const(op.inputs[1]).reshape(-1)])

    # ---------------------------------------------------------------- CPU-only ops of the cpu-mix family
    def op_CUSTOM(self, op):
        if op.custom == "VvIdentity":
            return self.get(op.inputs[0])
        raise Unsupported("custom " + str(op.custom))

    def op_NEG(self, op):
        sx, zx, dt = self.q(op.inputs[0])
        so, zo, odt = self.q(op.outputs[0])
        lo, hi = RANGE[odt]
        return np.clip(-(self.get(op.inputs[0]) - zx[0]) + zo[0], lo, hi)

    def op_REVERSE_V2(self, op):
        ax = int(self.const(op.inputs[1]).reshape(-1)[0])
        return np.flip(self.get(op.inputs[0]), axis=ax)

    def op_FLOOR_DIV(self, op):
        a, b = self.get(op.inputs[0]), self.get(op.inputs[1])
        return np.where(b == 0, 0, np.floor_divide(a, np.where(b == 0, 1, b)))
