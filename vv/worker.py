import sys
from vv.harness import worker_main

if __name__ == "__main__":
    worker_main(sys.argv[1:])
