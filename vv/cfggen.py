"""Configuration generator: accelerator x memory mode x strategy x arena cache x allocator x alignment x blockdep."""
import os

import numpy as np

from . import repo

ACCS = ["ethos-u55-32", "ethos-u55-64", "ethos-u55-128", "ethos-u55-256", "ethos-u65-256", "ethos-u65-512"]
ALLOCS = ["Greedy", "LinearAlloc", "HillClimb"]
# (system_config, memory_mode) choices per accelerator family; None = internal default (i.MX93)
MODES_U55 = [None, ("Ethos_U55_High_End_Embedded", "Sram_Only"), ("Ethos_U55_High_End_Embedded", "Shared_Sram"),
             ("Ethos_U55_Deep_Embedded", "Shared_Sram")]
MODES_U65 = [None, ("Ethos_U65_Embedded", "Sram_Only"), ("Ethos_U65_Embedded", "Shared_Sram"), ("Ethos_U65_High_End", "Dedicated_Sram"),
             ("Ethos_U65_Mid_End", "Dedicated_Sram_512KB"), ("Ethos_U65_High_End", "Shared_Sram")]
CACHES = [2048, 8192, 16384, 32768, 65536, 131072, 393216, 1048576, 4194304]


def config_file():
    return os.path.join(repo.REPO, "ethosu", "config_files", "Arm", "vela.ini")


def rand_cfg(rng, hostile=True):
    acc = ACCS[int(rng.integers(0, len(ACCS)))]
    modes = MODES_U55 if "u55" in acc else MODES_U65
    mode = modes[int(rng.integers(0, len(modes)))]
    cfg = {
        "acc": acc,
        "mode": list(mode) if mode else None,
        "optimise": "Size" if rng.integers(0, 3) == 0 else "Performance",
        "allocator": ALLOCS[int(rng.integers(0, 3))],
        "cache": int(CACHES[int(rng.integers(0, len(CACHES)))]) if rng.integers(0, 4) else None,
        "align": int(rng.choice([16, 16, 16, 32, 64, 128, 256])),
        "blockdep": int(rng.choice([3, 3, 3, 0, 1, 2])),
        "hc_iters": int(rng.choice([99999, 99999, 1, 10])),
    }
    return cfg


def covering_cfgs(rng, n):
    """n configurations that cover every accelerator, every mode of its family, both strategies, all allocators at least once
    (when n >= 12) and are otherwise random."""
    out = []
    i = 0
    while len(out) < n:
        c = rand_cfg(rng)
        c["acc"] = ACCS[i % 6]
        modes = MODES_U55 if "u55" in c["acc"] else MODES_U65
        m = modes[(i // 6) % len(modes)]
        c["mode"] = list(m) if m else None
        c["allocator"] = ALLOCS[(i // 2) % 3]
        c["optimise"] = ["Performance", "Size"][(i // 3) % 2] if i % 5 else c["optimise"]
        out.append(c)
        i += 1
    return out


def argv(cfg, model_path, outdir):
    a = [model_path, "--output-dir", outdir, "--accelerator-config", cfg["acc"]]
    if cfg.get("mode"):
        a += ["--config", cfg.get("config_path") or config_file(), "--system-config", cfg["mode"][0], "--memory-mode", cfg["mode"][1]]
    if cfg.get("optimise"):
        a += ["--optimise", cfg["optimise"]]
    if cfg.get("allocator"):
        a += ["--tensor-allocator", cfg["allocator"]]
    if cfg.get("cache") is not None:
        a += ["--arena-cache-size", str(cfg["cache"])]
    if cfg.get("align") and cfg["align"] != 16:
        a += ["--cpu-tensor-alignment", str(cfg["align"])]
    if cfg.get("blockdep") is not None and cfg["blockdep"] != 3:
        a += ["--max-block-dependency", str(cfg["blockdep"])]
    if cfg.get("hc_iters") and cfg["hc_iters"] != 99999:
        a += ["--hillclimb-max-iterations", str(cfg["hc_iters"])]
    for f in cfg.get("flags") or []:
        a.append(f)
    return a


def cfg_key(cfg):
    return "%s/%s/%s/%s/c%s/a%s/b%s" % (cfg["acc"], "-".join(cfg["mode"]) if cfg.get("mode") else "imx93", cfg.get("optimise"), cfg.get("allocator"),
                                        cfg.get("cache"), cfg.get("align"), cfg.get("blockdep"))
