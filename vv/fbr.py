"""Schema-light flatbuffer reader for TFLite files (vtable walking; no generated code, no Vela code).

Field numbers are frozen from the TFLite schema (v3).  This is the "plain flatbuffer parser" the properties refer to.
It is deliberately strict: every offset is bounds-checked and a malformed file raises FbError.
"""
import struct

import numpy as np


class FbError(Exception):
    pass


class Tbl:
    __slots__ = ("buf", "pos", "vt", "vtsize", "tblsize")

    def __init__(self, buf, pos):
        if pos < 0 or pos + 4 > len(buf):
            raise FbError("table pos out of range %d" % pos)
        self.buf, self.pos = buf, pos
        soff = struct.unpack_from("<i", buf, pos)[0]
        self.vt = pos - soff
        if self.vt < 0 or self.vt + 4 > len(buf):
            raise FbError("vtable out of range")
        self.vtsize, self.tblsize = struct.unpack_from("<HH", buf, self.vt)
        if self.vtsize < 4 or self.vt + self.vtsize > len(buf) or pos + self.tblsize > len(buf):
            raise FbError("vtable/table size out of range")

    def _off(self, field):
        o = 4 + 2 * field
        if o + 2 > self.vtsize:
            return 0
        return struct.unpack_from("<H", self.buf, self.vt + o)[0]

    def has(self, field):
        return self._off(field) != 0

    def scalar(self, field, fmt, default):
        o = self._off(field)
        if not o:
            return default
        sz = struct.calcsize(fmt)
        if o + sz > self.tblsize:
            raise FbError("scalar beyond table")
        return struct.unpack_from("<" + fmt, self.buf, self.pos + o)[0]

    def _indirect(self, field):
        o = self._off(field)
        if not o:
            return None
        p = self.pos + o
        tgt = p + struct.unpack_from("<I", self.buf, p)[0]
        if tgt + 4 > len(self.buf):
            raise FbError("indirect target out of range")
        return tgt

    def table(self, field):
        p = self._indirect(field)
        return None if p is None else Tbl(self.buf, p)

    def string(self, field):
        p = self._indirect(field)
        if p is None:
            return None
        n = struct.unpack_from("<I", self.buf, p)[0]
        if p + 4 + n > len(self.buf):
            raise FbError("string out of range")
        return bytes(self.buf[p + 4 : p + 4 + n]).decode("utf-8", "replace")

    def vec_len_pos(self, field):
        p = self._indirect(field)
        if p is None:
            return 0, None
        n = struct.unpack_from("<I", self.buf, p)[0]
        return n, p + 4

    def vec_scalars(self, field, dtype):
        n, p = self.vec_len_pos(field)
        if p is None:
            return None
        dt = np.dtype(dtype).newbyteorder("<")
        if p + n * dt.itemsize > len(self.buf):
            raise FbError("vector out of range")
        return np.frombuffer(self.buf, dtype=dt, count=n, offset=p)

    def vec_tables(self, field):
        n, p = self.vec_len_pos(field)
        if p is None:
            return []
        if p + 4 * n > len(self.buf):
            raise FbError("vector out of range")
        out = []
        for i in range(n):
            q = p + 4 * i
            out.append(Tbl(self.buf, q + struct.unpack_from("<I", self.buf, q)[0]))
        return out

    def raw_fields(self):
        """[(field_id, raw bytes up to next field/end)] - used for options equality when both sides were laid out alike"""
        offs = []
        for f in range((self.vtsize - 4) // 2):
            o = self._off(f)
            if o:
                offs.append((o, f))
        return offs


TENSOR_TYPES = {0: "float32", 1: "float16", 2: "int32", 3: "uint8", 4: "int64", 5: "string", 6: "bool", 7: "int16",
                8: "complex64", 9: "int8", 10: "float64", 11: "complex128", 12: "uint64", 13: "resource", 14: "variant",
                15: "uint32", 16: "uint16", 17: "int4"}


class RTensor:
    pass


class ROp:
    pass


class RModel:
    """Parsed view of a TFLite file."""

    def __init__(self, data):
        buf = bytes(data)
        self.buf = buf
        if len(buf) < 8:
            raise FbError("file too short")
        if buf[4:8] != b"TFL3":
            raise FbError("bad file identifier %r" % buf[4:8])
        root = Tbl(buf, struct.unpack_from("<I", buf, 0)[0])
        self.version = root.scalar(0, "I", 0)
        self.description = root.string(3)
        self.opcodes = []
        for oc in root.vec_tables(1):
            dep = oc.scalar(0, "b", 0)
            code = oc.scalar(3, "i", 0)
            self.opcodes.append({"builtin": max(dep, code), "deprecated": dep, "code": code, "custom": oc.string(1), "version": oc.scalar(2, "i", 1)})
        self.buffers = []
        for bt in root.vec_tables(4):
            d = bt.vec_scalars(0, np.uint8)
            self.buffers.append(d)
        self.metadata = {}
        self.metadata_order = []
        for mt in root.vec_tables(6):
            name = mt.string(0)
            bi = mt.scalar(1, "I", 0)
            if bi >= len(self.buffers):
                raise FbError("metadata buffer index out of range")
            self.metadata[name] = self.buffers[bi]
            self.metadata_order.append(name)
        self.subgraphs = []
        for sg in root.vec_tables(2):
            S = type("RSubgraph", (), {})()
            S.name = sg.string(4)
            S.tensors = []
            for tt in sg.vec_tables(0):
                T = RTensor()
                sh = tt.vec_scalars(0, np.int32)
                T.has_shape = sh is not None
                T.shape = [] if sh is None else [int(x) for x in sh]
                T.type = tt.scalar(1, "b", 0)
                T.dtype = TENSOR_TYPES.get(T.type, "?%d" % T.type)
                T.buffer = tt.scalar(2, "I", 0)
                if T.buffer >= len(self.buffers):
                    raise FbError("tensor buffer index out of range")
                T.name = tt.string(3)
                T.is_variable = bool(tt.scalar(5, "B", 0))
                q = tt.table(4)
                T.has_quant = q is not None
                T.scale = T.zp = None
                T.qdim = 0
                T.qmin = T.qmax = None
                if q is not None:
                    s = q.vec_scalars(2, np.float32)
                    z = q.vec_scalars(3, np.int64)
                    T.scale = None if s is None else [float(np.float32(x)) for x in s]
                    T.zp = None if z is None else [int(x) for x in z]
                    T.qdim = q.scalar(6, "i", 0)
                    mn = q.vec_scalars(0, np.float32)
                    mx = q.vec_scalars(1, np.float32)
                    T.qmin = None if mn is None else [float(x) for x in mn]
                    T.qmax = None if mx is None else [float(x) for x in mx]
                sig = tt.vec_scalars(7, np.int32)
                T.shape_signature = None if sig is None else [int(x) for x in sig]
                d = self.buffers[T.buffer]
                T.data = d if (d is not None and len(d)) else None
                S.tensors.append(T)
            i = sg.vec_scalars(1, np.int32)
            o = sg.vec_scalars(2, np.int32)
            S.inputs = [] if i is None else [int(x) for x in i]
            S.outputs = [] if o is None else [int(x) for x in o]
            S.ops = []
            for ot in sg.vec_tables(3):
                P = ROp()
                P.opcode_index = ot.scalar(0, "I", 0)
                if P.opcode_index >= len(self.opcodes):
                    raise FbError("opcode index out of range")
                oc = self.opcodes[P.opcode_index]
                P.builtin, P.custom, P.version = oc["builtin"], oc["custom"], oc["version"]
                ii = ot.vec_scalars(1, np.int32)
                oo = ot.vec_scalars(2, np.int32)
                P.inputs = [] if ii is None else [int(x) for x in ii]
                P.outputs = [] if oo is None else [int(x) for x in oo]
                for x in P.inputs + P.outputs:
                    if x < -1 or x >= len(S.tensors):
                        raise FbError("operator tensor index out of range")
                P.options_type = ot.scalar(3, "B", 0)
                P.options = ot.table(4)
                co = ot.vec_scalars(5, np.uint8)
                P.custom_options = None if co is None else bytes(co)
                inter = ot.vec_scalars(8, np.int32)
                P.intermediates = [] if inter is None else [int(x) for x in inter]
                S.ops.append(P)
            for x in S.inputs + S.outputs:
                if x < 0 or x >= len(S.tensors):
                    raise FbError("subgraph io index out of range")
            self.subgraphs.append(S)

    # convenience
    def tdata(self, sg, ti, dtype=None):
        T = self.subgraphs[sg].tensors[ti]
        if T.data is None:
            return None
        a = np.frombuffer(bytes(T.data), dtype=np.dtype(dtype or T.dtype))
        return a


def offline_alloc(model):
    """Parse OfflineMemoryAllocation metadata: returns (version, n_subgraphs, offsets list) or None."""
    d = model.metadata.get("OfflineMemoryAllocation")
    if d is None:
        return None
    a = np.frombuffer(bytes(d), dtype="<i4")
    if len(a) < 3:
        raise FbError("OfflineMemoryAllocation too short")
    ver, nsg, nt = int(a[0]), int(a[1]), int(a[2])
    if len(a) < 3 + nt:
        raise FbError("OfflineMemoryAllocation truncated")
    return ver, nsg, [int(x) for x in a[3 : 3 + nt]]
