"""Shared compile-campaign helpers: build a generated network, compile it in-process (caller runs in a forked child per case), load the artefact."""
import os
import shutil

import numpy as np

from . import artefact, cfggen, compile as vc, hostile, netgen, tflw

FAMILIES_ALL = ["shared-weights", "stripe-resize", "tiny", "mixed-width", "exact-chain", "exact-dag", "approx-tail", "stripe-stress", "buffer-stress", "lut-stress", "alias-stress", "cpu-mix", "exact-chain-big"]


def make_net(family, nseed, case=None):
    if family == "hostile":
        case = case or {}
        if case.get("hkind") == "zoo":
            return hostile.fam_zoo(nseed, case.get("hpick", 0))
        return hostile.fam_hostile(nseed, case.get("hkind"), case.get("hpick"))
    return netgen.make(family, nseed)


def gen_cases(tier, seed, tag, n_quick, n_thorough, families=None, weights=None, cfg_hook=None, extra=None):
    """extra: [(family, n_quick, n_thorough)] - cases appended after the regular ones, so that adding a family never changes which networks the regular
    indices denote (recorded witnesses, seeded-change evaluations and catch densities stay comparable)"""
    families = families or FAMILIES_ALL
    n = n_quick if tier == "quick" else n_thorough
    rng = np.random.default_rng(np.random.SeedSequence([tag, seed]))
    cases = []
    for i in range(n):
        fam = families[i % len(families)] if weights is None else str(rng.choice(families, p=weights))
        cfg = cfggen.rand_cfg(rng)
        if cfg_hook:
            cfg_hook(rng, cfg, fam, i)
        cases.append({"family": fam, "nseed": int(seed * 1000003 + i * 7 + tag), "cfg": cfg})
    i = n
    for fam, nq, nt in extra or []:
        for _ in range(nq if tier == "quick" else nt):
            cfg = cfggen.rand_cfg(rng)
            if cfg_hook:
                cfg_hook(rng, cfg, fam, i)
            cases.append({"family": fam, "nseed": int(seed * 1000003 + i * 7 + tag), "cfg": cfg})
            i += 1
    return cases


class Compiled:
    def __init__(self, case, keep=False):
        self.case = case
        self.net = make_net(case["family"], case["nseed"], case)
        self.src_bytes = tflw.build(self.net)
        if case.get("model_z"):
            # replay of a recorded witness: the exact bytes that were compiled then (the generators may have changed since)
            import base64
            import zlib

            self.src_bytes = zlib.decompress(base64.b64decode(case["model_z"]))
            if case.get("info"):
                self.net.info = dict(case["info"])
        self.dir = os.path.join(case["sdir"], "c%d_%d" % (case["nseed"], os.getpid()))
        os.makedirs(self.dir, exist_ok=True)
        self.model_path = os.path.join(self.dir, "net.tflite")
        with open(self.model_path, "wb") as f:
            f.write(self.src_bytes)
        self.res = vc.run_inproc(self.model_path, case["cfg"], os.path.join(self.dir, "out"))
        self.art = None
        self.out_bytes = None
        if self.res.ok():
            self.out_bytes = open(self.res.out_path, "rb").read()
            self.art = artefact.Artefact(self.out_bytes, case["cfg"]["acc"])

    def cleanup(self):
        shutil.rmtree(self.dir, ignore_errors=True)

    def witness(self):
        import base64
        import zlib

        w = {"family": self.case["family"], "nseed": self.case["nseed"], "cfg": self.case["cfg"], "kinds": self.net.info.get("kinds")}
        z = base64.b64encode(zlib.compress(self.src_bytes, 9)).decode()
        if len(z) < 400000:
            w["model_z"] = z
            w["info"] = {k: v for k, v in self.net.info.items() if isinstance(v, (str, int, float, list, type(None)))}
        return w


def arena_cache_limit(cfg):
    """configured arena cache size in Dedicated-SRAM modes (None when the mode has no dedicated SRAM)"""
    mode = cfg.get("mode")
    if mode is None:
        # internal default: Ethos-U65 = Dedicated SRAM with 384 KiB; Ethos-U55 = Shared SRAM
        if "u65" in cfg["acc"]:
            return cfg["cache"] if cfg.get("cache") is not None else 384 * 1024
        return None
    if mode[1].startswith("Dedicated_Sram"):
        if cfg.get("cache") is not None:
            return cfg["cache"]
        return 524288 if mode[1].endswith("512KB") else 393216
    return None


def arena_area(cfg):
    """which reported figure holds the tensor arena: 'sram' or 'dram'"""
    mode = cfg.get("mode")
    if mode is None:
        return "dram" if "u65" in cfg["acc"] else "sram"
    return "dram" if mode[1].startswith("Dedicated_Sram") else "sram"


def pack_model(model_bytes):
    """model bytes for a witness (zlib + base64), or None when too large to carry"""
    import base64
    import zlib

    z = base64.b64encode(zlib.compress(model_bytes, 9)).decode()
    return z if len(z) < 400000 else None


def unpack_model(z):
    import base64
    import zlib

    return zlib.decompress(base64.b64decode(z))
