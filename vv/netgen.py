"""Seeded random TFLite network generator (families of Appendix E).  Produces tflw.Net objects.

Every family is deterministic in (family, seed).  net.info carries: family, klass ('exact' | 'approx' | 'cpu-mix' |
'hostile'), tol (allowed |diff| at outputs for C01), ops (kinds used).
"""
import numpy as np

from .tflw import BO, Net, O, T

ACT_NONE, ACT_RELU, ACT_RELU_N1_1, ACT_RELU6, ACT_TANH = 0, 1, 2, 3, 4
PAD_SAME, PAD_VALID = 0, 1

DT_RANGE = {"int8": (-128, 127), "uint8": (0, 255), "int16": (-32768, 32767), "int32": (-(2 ** 31), 2 ** 31 - 1)}


def rng_for(*keys):
    ss = np.random.SeedSequence([abs(hash_str(str(k))) % (2 ** 32) for k in keys])
    return np.random.default_rng(ss)


def hash_str(s):
    h = 2166136261
    for ch in s.encode():
        h = ((h ^ ch) * 16777619) & 0xFFFFFFFF
    return h


class G:
    """Network builder with shape inference and a private rng."""

    def __init__(self, rng, dtype="int8", tag=""):
        self.rng, self.dtype = rng, dtype
        self.net = Net(tag=tag)
        self.n = 0
        self.kinds = []

    # ---- naming / tensors
    def name(self, p):
        self.n += 1
        return "%s_%d" % (p, self.n)

    def rscale(self, lo=0.004, hi=0.12):
        return float(np.float32(np.exp(self.rng.uniform(np.log(lo), np.log(hi)))))

    def rzp(self, dtype=None):
        dtype = dtype or self.dtype
        if dtype == "int16" or dtype == "int32":
            return 0
        lo, hi = DT_RANGE[dtype]
        c = self.rng.integers(0, 6)
        if c == 0:
            return lo
        if c == 1:
            return hi
        if c == 2:
            return 0 if dtype == "int8" else 128
        return int(self.rng.integers(lo, hi + 1))

    def act(self, name, shape, scale=None, zp=None, dtype=None):
        dtype = dtype or self.dtype
        return self.net.add_t(name, shape, dtype, [scale if scale is not None else self.rscale()], [zp if zp is not None else self.rzp(dtype)])

    def input(self, shape, scale=None, zp=None, dtype=None, name=None):
        t = self.act(name or self.name("in"), shape, scale, zp, dtype)
        self.net.inputs.append(t.name)
        return t.name

    def const(self, name, shape, dtype, data, scale=None, zp=None, qdim=0):
        return self.net.add_t(name, shape, dtype, scale, zp, qdim, data=data)

    def shape(self, n):
        return self.net.t(n).shape

    def T(self, n):
        return self.net.t(n)

    def rweights(self, shape, dist=None):
        r = self.rng
        dist = dist if dist is not None else r.integers(0, 6)
        if dist == 0:
            w = r.integers(-127, 128, shape)
        elif dist == 1:
            w = np.clip(np.round(r.normal(0, 20, shape)), -127, 127)
        elif dist == 2:
            w = r.integers(-127, 128, shape) * (r.random(shape) < 0.25)
        elif dist == 3:
            w = r.choice(np.array([-127, -1, 0, 1, 127, 3, -5]), shape)
        elif dist == 4:
            w = r.integers(-8, 9, shape)
        else:
            w = np.clip(np.round(r.normal(0, 50, shape)), -127, 127)
            w.flat[r.integers(0, w.size)] = 127
            w.flat[r.integers(0, w.size)] = -127
        return w.astype(np.int64)

    def out_hw(self, h, w, kh, kw, sh, sw, dh, dw, padding):
        if padding == PAD_SAME:
            return -(-h // sh), -(-w // sw)
        ekh, ekw = (kh - 1) * dh + 1, (kw - 1) * dw + 1
        return (h - ekh) // sh + 1, (w - ekw) // sw + 1

    # ---- operators
    def conv(self, x, oc, k=3, stride=1, padding=PAD_SAME, act=ACT_NONE, dil=1, per_channel=True, oscale=None, ozp=None,
             kw=None, stride_w=None, wdist=None, bias=True, wzp=None, bias64=None, share_w=None, share_b=None, dil_w=None, groups=1):
        r = self.rng
        X = self.T(x)
        _, h, w, ic = X.shape
        assert ic % groups == 0 and oc % groups == 0
        ic //= groups  # grouped convolution: the filter holds IFM depth / groups channels, the groups are implied by the two depths
        kh, kw = k, (kw or k)
        sh, sw = stride, (stride_w or stride)
        dil_w = dil_w or dil
        oh, ow = self.out_hw(h, w, kh, kw, sh, sw, dil, dil_w, padding)
        assert oh > 0 and ow > 0
        nm = self.name("conv")
        wd = "uint8" if X.dtype.name == "uint8" else "int8"
        if wd == "uint8":
            per_channel = False
        nsc = oc if per_channel else 1
        wsc = [self.rscale(0.002, 0.03) for _ in range(nsc)]
        if wd == "uint8":
            wz = [int(r.integers(100, 156)) if wzp is None else wzp]
            wdata = np.clip(self.rweights((oc, kh, kw, ic), wdist) + wz[0], 0, 255)
        else:
            wz = [0] * nsc
            wdata = self.rweights((oc, kh, kw, ic), wdist)
        if share_w is not None:
            W = self.T(share_w)  # second consumer of an existing filter tensor
            wsc = list(W.scale)
            nsc = len(wsc)
        else:
            W = self.const(nm + "_w", (oc, kh, kw, ic), wd, wdata, wsc, wz, 0)
        ins = [x, W.name]
        if bias and share_b is not None:
            ins.append(share_b)
        elif bias:
            bsc = [float(np.float32(X.scale[0] * s)) for s in wsc]
            if bias64 is None:
                bias64 = X.dtype.name == "int16"  # 16x8 quantisation: int64 bias is the norm (int32 bias: only where asked for explicitly)
            bd = "int64" if (X.dtype.name == "int16" and bias64) else "int32"
            blim = 2 ** 15 if X.dtype.name != "int16" else 2 ** 20
            bdata = r.integers(-blim, blim, (oc,))
            B = self.const(nm + "_b", (oc,), bd, bdata, bsc, [0] * nsc, 0)
            ins.append(B.name)
        out = self.act(nm + "_o", (1, oh, ow, oc), oscale, ozp, dtype=X.dtype.name)
        self.last_conv = (W.name, ins[2] if len(ins) > 2 else None)
        self.net.add_o(BO.CONV_2D, ins, [out.name], "Conv2DOptions",
                       dict(padding=padding, stride_w=sw, stride_h=sh, dilation_w_factor=dil_w, dilation_h_factor=dil, fused_activation_function=act), 3)
        self.kinds.append("conv")
        return out.name

    def tconv(self, x, oc, k=3, stride=2, padding=PAD_SAME, per_channel=True, oscale=None, ozp=None, kw=None, bias=True, share_w=None, wdist=None):
        """TRANSPOSE_CONV: inputs [output shape, filter OHWI, ifm, bias]"""
        r = self.rng
        X = self.T(x)
        _, h, w, ic = X.shape
        kh, kw = k, (kw or k)
        if padding == PAD_SAME:
            oh, ow = h * stride, w * stride
        else:
            oh, ow = h * stride + max(kh - stride, 0), w * stride + max(kw - stride, 0)
        nm = self.name("tconv")
        wd = "uint8" if X.dtype.name == "uint8" else "int8"
        if wd == "uint8":
            per_channel = False
        nsc = oc if per_channel else 1
        wsc = [self.rscale(0.002, 0.03) for _ in range(nsc)]
        if share_w is not None:
            W = self.T(share_w)
            wsc = list(W.scale)
            nsc = len(wsc)
        elif wd == "uint8":
            wz = [int(r.integers(100, 156))]
            W = self.const(nm + "_w", (oc, kh, kw, ic), wd, np.clip(self.rweights((oc, kh, kw, ic), wdist) + wz[0], 0, 255), wsc, wz, 0)
        else:
            W = self.const(nm + "_w", (oc, kh, kw, ic), wd, self.rweights((oc, kh, kw, ic), wdist), wsc, [0] * nsc, 0)
        S = self.const(nm + "_shape", (4,), "int32", np.array([1, oh, ow, oc]), None, None)
        ins = [S.name, W.name, x]
        if bias:
            bsc = [float(np.float32(X.scale[0] * s_)) for s_ in wsc]
            B = self.const(nm + "_b", (oc,), "int32", r.integers(-2 ** 15, 2 ** 15, (oc,)), bsc, [0] * nsc, 0)
            ins.append(B.name)
        out = self.act(nm + "_o", (1, oh, ow, oc), oscale, ozp, dtype=X.dtype.name)
        self.last_conv = (W.name, ins[3] if len(ins) > 3 else None)
        self.net.add_o(BO.TRANSPOSE_CONV, ins, [out.name], "TransposeConvOptions", dict(padding=padding, stride_w=stride, stride_h=stride), 3)
        self.kinds.append("tconv")
        return out.name

    def dwconv(self, x, k=3, stride=1, padding=PAD_SAME, act=ACT_NONE, dil=1, per_channel=True, mult=1, oscale=None, ozp=None, wdist=None):
        r = self.rng
        X = self.T(x)
        _, h, w, ic = X.shape
        oc = ic * mult
        oh, ow = self.out_hw(h, w, k, k, stride, stride, dil, dil, padding)
        assert oh > 0 and ow > 0
        nm = self.name("dw")
        wd = "uint8" if X.dtype.name == "uint8" else "int8"
        if wd == "uint8":
            per_channel = False
        nsc = oc if per_channel else 1
        wsc = [self.rscale(0.002, 0.03) for _ in range(nsc)]
        if wd == "uint8":
            wz = [int(r.integers(100, 156))]
            wdata = np.clip(self.rweights((1, k, k, oc), wdist) + wz[0], 0, 255)
        else:
            wz = [0] * nsc
            wdata = self.rweights((1, k, k, oc), wdist)
        W = self.const(nm + "_w", (1, k, k, oc), wd, wdata, wsc, wz, 3)
        bsc = [float(np.float32(X.scale[0] * s)) for s in wsc]
        B = self.const(nm + "_b", (oc,), "int64" if X.dtype.name == "int16" else "int32", r.integers(-(2 ** 14), 2 ** 14, (oc,)), bsc, [0] * nsc, 0)
        out = self.act(nm + "_o", (1, oh, ow, oc), oscale, ozp)
        self.net.add_o(BO.DEPTHWISE_CONV_2D, [x, W.name, B.name], [out.name], "DepthwiseConv2DOptions",
                       dict(padding=padding, stride_w=stride, stride_h=stride, depth_multiplier=mult, dilation_w_factor=dil,
                            dilation_h_factor=dil, fused_activation_function=act), 3)
        self.kinds.append("dwconv")
        return out.name

    def fc(self, x, oc, act=ACT_NONE, bias=True, oscale=None, ozp=None, wdist=None):
        r = self.rng
        X = self.T(x)
        assert len(X.shape) == 2
        n, ic = X.shape
        nm = self.name("fc")
        wd = "uint8" if X.dtype.name == "uint8" else "int8"
        wsc = [self.rscale(0.002, 0.03)]
        if wd == "uint8":
            wz = [int(r.integers(100, 156))]
            wdata = np.clip(self.rweights((oc, ic), wdist) + wz[0], 0, 255)
        else:
            wz = [0]
            wdata = self.rweights((oc, ic), wdist)
        W = self.const(nm + "_w", (oc, ic), wd, wdata, wsc, wz, 0)
        ins = [x, W.name]
        if bias:
            B = self.const(nm + "_b", (oc,), "int32", r.integers(-(2 ** 14), 2 ** 14, (oc,)), [float(np.float32(X.scale[0] * wsc[0]))], [0], 0)
            ins.append(B.name)
        else:
            ins.append(None)
        out = self.act(nm + "_o", (n, oc), oscale, ozp)
        self.net.add_o(BO.FULLY_CONNECTED, ins, [out.name], "FullyConnectedOptions", dict(fused_activation_function=act), 4)
        self.kinds.append("fc")
        return out.name

    def pool(self, x, kind, k=2, stride=2, padding=PAD_VALID, act=ACT_NONE, kw=None, stride_w=None):
        X = self.T(x)
        _, h, w, c = X.shape
        kh, kw = k, (kw or k)
        stride_w = stride_w or stride
        oh, ow = self.out_hw(h, w, kh, kw, stride, stride_w, 1, 1, padding)
        assert oh > 0 and ow > 0
        nm = self.name(kind)
        out = self.act(nm + "_o", (1, oh, ow, c), X.scale[0], X.zp[0])
        code = BO.MAX_POOL_2D if kind == "maxpool" else BO.AVERAGE_POOL_2D
        self.net.add_o(code, [x], [out.name], "Pool2DOptions",
                       dict(padding=padding, stride_w=stride_w, stride_h=stride, filter_width=kw, filter_height=kh, fused_activation_function=act), 2)
        self.kinds.append(kind)
        return out.name

    def eltwise(self, kind, a, b, act=ACT_NONE, oscale=None, ozp=None, odtype=None):
        A, B = self.T(a), self.T(b)
        shp = list(np.broadcast_shapes(tuple(A.shape), tuple(B.shape)))
        nm = self.name(kind)
        out = self.act(nm + "_o", shp, oscale, ozp, odtype)
        code = {"add": BO.ADD, "sub": BO.SUB, "mul": BO.MUL, "min": BO.MINIMUM, "max": BO.MAXIMUM, "sqdiff": BO.SQUARED_DIFFERENCE}[kind]
        optn = {"add": "AddOptions", "sub": "SubOptions", "mul": "MulOptions", "min": "MaximumMinimumOptions", "max": "MaximumMinimumOptions",
                "sqdiff": "SquaredDifferenceOptions"}[kind]
        opts = dict(fused_activation_function=act) if kind in ("add", "sub", "mul") else {}
        self.net.add_o(code, [a, b], [out.name], optn, opts, 2 if kind in ("add", "sub", "mul") else 1)
        self.kinds.append(kind)
        return out.name

    def prelu(self, x, big=True):
        """PRELU with a constant per-channel slope; big: slopes are not uniform and reach 1 or more (no table, no Mul+Max: the operator is decomposed into
        Relu / Minimum / Mul / Add with internal intermediates)"""
        r = self.rng
        X = self.T(x)
        c = X.shape[-1]
        nm = self.name("prelu")
        codes = r.integers(1, 128, (c,))
        if big:
            codes[int(r.integers(0, c))] = 127
        a = self.const(nm + "_alpha", (1, 1, c), X.dtype.name if X.dtype.name != "int16" else "int8", codes, [float(np.float32((1.5 if big else 0.5) / 127.0))], [0])
        out = self.act(nm + "_o", X.shape)
        self.net.add_o(BO.PRELU, [x, a.name], [out.name], None, None, 1)
        self.kinds.append("prelu")
        return out.name

    def mul_max(self, x, style=None):
        """MAXIMUM(x, MUL(x, scalar constant)) with one quantisation throughout: the compiler's pattern for LeakyReLU (slope >= 0) / ABS (slope -1);
        the reference is the MUL and MAXIMUM kernels themselves"""
        r = self.rng
        X = self.T(x)
        lo, hi = DT_RANGE[X.dtype.name]
        style = int(r.integers(0, 4)) if style is None else style
        if style == 0:  # slope stored in the usual asymmetric way: [0, alpha] -> zero point at the bottom, code at the top
            alpha = float(r.choice([0.1, 0.2, 0.01, 0.3, float(r.uniform(0.01, 0.9))]))
            kscale, kzp, code = alpha / 255.0, lo, hi
        elif style == 1:  # symmetric: zero point 0 (int8) / 128 (uint8)
            alpha = float(r.uniform(0.01, 0.9))
            kzp = (lo + hi + 1) // 2
            code = int(r.integers(kzp + 20, hi + 1))
            kscale = alpha / (code - kzp)
        elif style == 2:  # any zero point, positive slope; the code -1 (which alone says nothing about the slope) often
            kzp = int(r.integers(lo, hi - 40))
            code = int(r.integers(kzp + 10, hi + 1))
            if lo < 0 and kzp < -12 and r.integers(0, 3) == 0:
                code = -1
            kscale = float(r.uniform(0.01, 0.9)) / (code - kzp)
        else:  # slope -1 (ABS) and other negative slopes (no rewrite)
            kzp = int(r.integers(lo + 40, hi + 1))
            code = int(r.integers(lo, kzp - 10))
            kscale = (1.0 if r.integers(0, 2) else float(r.uniform(0.1, 0.9))) / (kzp - code)
        k = self.const(self.name("slope"), [], X.dtype.name, np.array(code), [float(np.float32(kscale))], [kzp])
        m = self.eltwise("mul", *((x, k.name) if r.integers(0, 2) else (k.name, x)), oscale=X.scale[0], ozp=X.zp[0])
        return self.eltwise("max", *((x, m) if r.integers(0, 2) else (m, x)), oscale=X.scale[0], ozp=X.zp[0])

    def const_act(self, shape, dtype=None, scale=None, zp=None):
        dtype = dtype or self.dtype
        lo, hi = DT_RANGE[dtype]
        nm = self.name("k")
        t = self.const(nm, shape, dtype, self.rng.integers(lo, hi + 1, shape), [scale or self.rscale()], [zp if zp is not None else self.rzp(dtype)])
        return t.name

    def unary(self, kind, x, oscale=None, ozp=None, alpha=None, free_q=False):
        """free_q: keep the given output quantisation for LOGISTIC / TANH (the reference kernels fix it; the table generator accepts any)"""
        X = self.T(x)
        nm = self.name(kind)
        lo, hi = DT_RANGE[X.dtype.name]
        if kind == "logistic" and not free_q:
            oscale, ozp = (1 / 256.0, lo) if X.dtype.name != "int16" else (1 / 32768.0, 0)
        elif kind == "tanh" and not free_q:
            oscale, ozp = (1 / 128.0, (lo + hi + 1) // 2) if X.dtype.name != "int16" else (1 / 32768.0, 0)
        elif kind in ("relu", "relu6", "relu_n1_to_1", "abs") and oscale is None:
            oscale, ozp = X.scale[0], X.zp[0]
        out = self.act(nm + "_o", X.shape, oscale, ozp)
        code = {"logistic": BO.LOGISTIC, "tanh": BO.TANH, "relu": BO.RELU, "relu6": BO.RELU6, "relu_n1_to_1": BO.RELU_N1_TO_1,
                "leaky_relu": BO.LEAKY_RELU, "hard_swish": BO.HARD_SWISH, "abs": BO.ABS, "quantize": BO.QUANTIZE}[kind]
        if kind == "leaky_relu":
            self.net.add_o(code, [x], [out.name], "LeakyReluOptions", dict(alpha=float(alpha if alpha is not None else self.rng.uniform(0.01, 0.5))), 2)
        elif kind == "hard_swish":
            self.net.add_o(code, [x], [out.name], "HardSwishOptions", {}, 1)
        elif kind == "abs":
            self.net.add_o(code, [x], [out.name], "AbsOptions", {}, 2)
        elif kind == "quantize":
            self.net.add_o(code, [x], [out.name], "QuantizeOptions", {}, 2)
        else:
            self.net.add_o(code, [x], [out.name], None, None, 2)
        self.kinds.append(kind)
        return out.name

    def softmax(self, x, beta=1.0):
        X = self.T(x)
        lo, hi = DT_RANGE[X.dtype.name]
        nm = self.name("softmax")
        out = self.act(nm + "_o", X.shape, 1 / 256.0 if X.dtype.name != "int16" else 1 / 32768.0, lo if X.dtype.name != "int16" else 0)
        self.net.add_o(BO.SOFTMAX, [x], [out.name], "SoftmaxOptions", dict(beta=float(beta)), 2)
        self.kinds.append("softmax")
        return out.name

    def reshape(self, x, new_shape, dynamic_shape=False):
        X = self.T(x)
        nm = self.name("reshape")
        if dynamic_shape:
            # the shape operand is computed at run time (a graph input here): the operator cannot be resolved by the compiler and stays on the CPU
            s = self.net.add_t(nm + "_s", (len(new_shape),), "int32")
            self.net.inputs.append(s.name)
            self.kinds.append("cpu:dyn_reshape")
        else:
            s = self.const(nm + "_s", (len(new_shape),), "int32", new_shape)
        out = self.act(nm + "_o", new_shape, X.scale[0], X.zp[0])
        self.net.add_o(BO.RESHAPE, [x, s.name], [out.name], "ReshapeOptions", dict(new_shape=list(new_shape)), 1)
        self.kinds.append("reshape")
        return out.name

    def concat(self, xs, axis=3, same_q=True, oscale=None, ozp=None):
        Xs = [self.T(x) for x in xs]
        shp = list(Xs[0].shape)
        shp[axis] = sum(X.shape[axis] for X in Xs)
        nm = self.name("concat")
        if same_q:
            oscale, ozp = Xs[0].scale[0], Xs[0].zp[0]
        out = self.act(nm + "_o", shp, oscale, ozp)
        self.net.add_o(BO.CONCATENATION, xs, [out.name], "ConcatenationOptions", dict(axis=axis, fused_activation_function=0), 2)
        self.kinds.append("concat")
        return out.name

    def split(self, x, n, axis=3):
        X = self.T(x)
        nm = self.name("split")
        ax = self.const(nm + "_ax", (), "int32", axis)
        shp = list(X.shape)
        assert shp[axis] % n == 0
        shp[axis] //= n
        outs = [self.act("%s_o%d" % (nm, i), shp, X.scale[0], X.zp[0]).name for i in range(n)]
        self.net.add_o(BO.SPLIT, [ax.name, x], outs, "SplitOptions", dict(num_splits=n), 2)
        self.kinds.append("split")
        return outs

    def split_v(self, x, sizes, axis=3):
        X = self.T(x)
        nm = self.name("splitv")
        assert sum(sizes) == X.shape[axis]
        sz = self.const(nm + "_sz", (len(sizes),), "int32", list(sizes))
        ax = self.const(nm + "_ax", (), "int32", axis)
        outs = []
        for i, n in enumerate(sizes):
            shp = list(X.shape)
            shp[axis] = n
            outs.append(self.act("%s_o%d" % (nm, i), shp, X.scale[0], X.zp[0]).name)
        self.net.add_o(BO.SPLIT_V, [x, sz.name, ax.name], outs, "SplitVOptions", dict(num_splits=len(sizes)), 2)
        self.kinds.append("split_v")
        return outs

    def strided_slice(self, x, begin, end, strides=None):
        X = self.T(x)
        nm = self.name("sslice")
        rank = len(X.shape)
        strides = strides or [1] * rank
        b = self.const(nm + "_b", (rank,), "int32", begin)
        e = self.const(nm + "_e", (rank,), "int32", end)
        s = self.const(nm + "_s", (rank,), "int32", strides)
        shp = [(en - be + st - 1) // st for be, en, st in zip(begin, end, strides)]
        out = self.act(nm + "_o", shp, X.scale[0], X.zp[0])
        self.net.add_o(BO.STRIDED_SLICE, [x, b.name, e.name, s.name], [out.name], "StridedSliceOptions",
                       dict(begin_mask=0, end_mask=0, ellipsis_mask=0, new_axis_mask=0, shrink_axis_mask=0), 2)
        self.kinds.append("strided_slice")
        return out.name

    def slice(self, x, begin, size):
        X = self.T(x)
        nm = self.name("slice")
        rank = len(X.shape)
        b = self.const(nm + "_b", (rank,), "int32", begin)
        s = self.const(nm + "_s", (rank,), "int32", size)
        out = self.act(nm + "_o", list(size), X.scale[0], X.zp[0])
        self.net.add_o(BO.SLICE, [x, b.name, s.name], [out.name], "SliceOptions", {}, 2)
        self.kinds.append("slice")
        return out.name

    def pad(self, x, pads):
        X = self.T(x)
        nm = self.name("pad")
        p = self.const(nm + "_p", (len(pads), 2), "int32", pads)
        shp = [d + a + b for d, (a, b) in zip(X.shape, pads)]
        out = self.act(nm + "_o", shp, X.scale[0], X.zp[0])
        self.net.add_o(BO.PAD, [x, p.name], [out.name], "PadOptions", {}, 2)
        self.kinds.append("pad")
        return out.name

    def mean(self, x, axes=(1, 2), keep_dims=True, oscale=None, ozp=None):
        X = self.T(x)
        nm = self.name("mean")
        a = self.const(nm + "_a", (len(axes),), "int32", list(axes))
        shp = [1 if i in axes else d for i, d in enumerate(X.shape)] if keep_dims else [d for i, d in enumerate(X.shape) if i not in axes]
        out = self.act(nm + "_o", shp, oscale if oscale is not None else X.scale[0], ozp if ozp is not None else X.zp[0])
        self.net.add_o(BO.MEAN, [x, a.name], [out.name], "ReducerOptions", dict(keep_dims=keep_dims), 2)
        self.kinds.append("mean")
        return out.name

    def resize(self, x, kind, oh, ow, align_corners=False, half_pixel=False):
        X = self.T(x)
        nm = self.name(kind)
        s = self.const(nm + "_s", (2,), "int32", [oh, ow])
        out = self.act(nm + "_o", (1, oh, ow, X.shape[3]), X.scale[0], X.zp[0])
        if kind == "resize_bilinear":
            self.net.add_o(BO.RESIZE_BILINEAR, [x, s.name], [out.name], "ResizeBilinearOptions", dict(align_corners=align_corners, half_pixel_centers=half_pixel), 3)
        else:
            self.net.add_o(BO.RESIZE_NEAREST_NEIGHBOR, [x, s.name], [out.name], "ResizeNearestNeighborOptions",
                           dict(align_corners=align_corners, half_pixel_centers=half_pixel), 3)
        self.kinds.append(kind)
        return out.name

    def transpose(self, x, perm):
        X = self.T(x)
        nm = self.name("transpose")
        p = self.const(nm + "_p", (len(perm),), "int32", perm)
        out = self.act(nm + "_o", [X.shape[i] for i in perm], X.scale[0], X.zp[0])
        self.net.add_o(BO.TRANSPOSE, [x, p.name], [out.name], "TransposeOptions", {}, 2)
        self.kinds.append("transpose")
        return out.name

    def squeeze(self, x, dims):
        X = self.T(x)
        nm = self.name("squeeze")
        shp = [d for i, d in enumerate(X.shape) if i not in dims]
        out = self.act(nm + "_o", shp, X.scale[0], X.zp[0])
        self.net.add_o(BO.SQUEEZE, [x], [out.name], "SqueezeOptions", dict(squeeze_dims=list(dims)), 1)
        self.kinds.append("squeeze")
        return out.name

    def expand_dims(self, x, axis):
        X = self.T(x)
        nm = self.name("expand")
        a = self.const(nm + "_ax", (), "int32", axis)
        shp = list(X.shape)
        shp.insert(axis if axis >= 0 else len(shp) + 1 + axis, 1)
        out = self.act(nm + "_o", shp, X.scale[0], X.zp[0])
        self.net.add_o(BO.EXPAND_DIMS, [x, a.name], [out.name], "ExpandDimsOptions", {}, 1)
        self.kinds.append("expand_dims")
        return out.name

    def pack(self, xs, axis):
        X = self.T(xs[0])
        nm = self.name("pack")
        shp = list(X.shape)
        shp.insert(axis, len(xs))
        out = self.act(nm + "_o", shp, X.scale[0], X.zp[0])
        self.net.add_o(BO.PACK, list(xs), [out.name], "PackOptions", dict(values_count=len(xs), axis=axis), 2)
        self.kinds.append("pack")
        return out.name

    def unpack(self, x, axis):
        X = self.T(x)
        nm = self.name("unpack")
        n = X.shape[axis]
        shp = [d for i, d in enumerate(X.shape) if i != axis]
        outs = [self.act("%s_o%d" % (nm, i), shp, X.scale[0], X.zp[0]).name for i in range(n)]
        self.net.add_o(BO.UNPACK, [x], outs, "UnpackOptions", dict(num=n, axis=axis), 2)
        self.kinds.append("unpack")
        return outs

    def exp(self, x, oscale=None, ozp=None):
        X = self.T(x)
        nm = self.name("exp")
        out = self.act(nm + "_o", X.shape, oscale, ozp)
        self.net.add_o(BO.EXP, [x], [out.name], "ExpOptions", {}, 2)
        self.kinds.append("exp")
        return out.name

    # CPU-only / unsupported helpers
    def cpu_op(self, x, kind, other=None):
        """An operator Vela leaves on the CPU, shape-preserving, quantisation-preserving for the reference (identity-like semantics
        are NOT assumed: tfref implements each)."""
        X = self.T(x)
        nm = self.name(kind)
        if kind == "custom":
            out = self.act(nm + "_o", X.shape, X.scale[0], X.zp[0])
            self.net.add_o(BO.CUSTOM, [x], [out.name], None, None, 1, custom_code="VvIdentity", custom_options=bytes(self.rng.integers(0, 256, 7).astype(np.uint8)))
        elif kind == "neg":
            out = self.act(nm + "_o", X.shape, X.scale[0], -X.zp[0] if X.dtype.name == "int8" and X.zp[0] != -128 else X.zp[0])
            self.net.add_o(BO.NEG, [x], [out.name], "NegOptions", {}, 2)
        elif kind == "floor_div":
            k = other if other is not None else self.const_act(X.shape, X.dtype.name, X.scale[0], X.zp[0])
            out = self.act(nm + "_o", X.shape, X.scale[0], X.zp[0])
            self.net.add_o(BO.FLOOR_DIV, [x, k], [out.name], "FloorDivOptions", {}, 2)
        elif kind == "cast_i16":
            out = self.net.add_t(nm + "_o", X.shape, "int16", None, None)
            self.net.add_o(BO.CAST, [x], [out.name], "CastOptions", {}, 1)
        elif kind == "dequantize":
            out = self.net.add_t(nm + "_o", X.shape, "float32")
            self.net.add_o(BO.DEQUANTIZE, [x], [out.name], "DequantizeOptions", {}, 2)
        elif kind == "reverse":
            ax = self.const(nm + "_ax", (1,), "int32", [len(X.shape) - 1])
            out = self.act(nm + "_o", X.shape, X.scale[0], X.zp[0])
            self.net.add_o(BO.REVERSE_V2, [x, ax.name], [out.name], "ReverseV2Options", {}, 3)
        elif kind == "batched_relu":  # supported type with unsupported shape (batch 2 elementwise) -> handled by caller
            raise NotImplementedError
        else:
            raise KeyError(kind)
        self.kinds.append("cpu:" + kind)
        return out.name

    def finish(self, outputs, family, klass, tol=0):
        if getattr(self, "minmax", False):
            # the real-valued range next to scale / zero point, as converters write it (min / max of the quantisation table): per-tensor quantised activations only
            for t in self.net.tensors:
                if t.data is None and t.scale is not None and len(t.scale) == 1 and t.dtype.name in DT_RANGE and t.zp is not None:
                    lo, hi = DT_RANGE[t.dtype.name]
                    t.qmin = [float(np.float32(t.scale[0] * (lo - t.zp[0])))]
                    t.qmax = [float(np.float32(t.scale[0] * (hi - t.zp[0])))]
        self.net.outputs = list(outputs)
        self.net.info = dict(family=family, klass=klass, tol=tol, kinds=sorted(set(self.kinds)), dtype=self.dtype)
        return self.net


# ---------------------------------------------------------------------------------------------------------- families
def _rand_exact_op(g, x, allow_fc=False, big=False):
    """Append one random exact-class operator consuming x (4D). Returns new tensor name."""
    r = g.rng
    X = g.T(x)
    _, h, w, c = X.shape
    choice = r.choice(["conv", "conv", "dw", "maxpool", "add", "mul", "sub", "relu", "conv1", "addc", "min", "concat", "split", "reshape_rt", "pad_conv", "tconv", "transpose", "split"])
    if choice == "transpose":
        if X.dtype.name == "int16":
            choice = "conv"
        else:
            y = x
            if h >= w and w >= 2 and r.integers(0, 2):
                y = g.pool(x, "maxpool", min(2, h, w), 1, PAD_VALID, kw=1) if h > 2 else x  # keeps W, trims H by one
            t = g.transpose(y, [0, 2, 1, 3])  # height <-> width; wide inputs make the strided write reach far
            return g.conv(t, int(r.choice([4, 8, 16])), 1, 1, PAD_SAME, int(r.choice([ACT_NONE, ACT_RELU])))
    if choice == "tconv" and (X.dtype.name == "int16" or h * w > 144):
        choice = "conv"
    act = int(r.choice([ACT_NONE, ACT_NONE, ACT_RELU, ACT_RELU6, ACT_RELU_N1_1]))
    if choice in ("conv", "conv1"):
        k = 1 if choice == "conv1" else int(r.choice([1, 2, 3, 3, 5]))
        k = min(k, h, w)
        s = int(r.choice([1, 1, 2])) if min(h, w) >= 4 else 1
        pad = int(r.choice([PAD_SAME, PAD_VALID]))
        dil = int(r.choice([1, 1, 1, 2])) if (s == 1 and (k - 1) * 2 + 1 <= min(h, w)) else 1
        oc = int(r.choice([4, 8, 12, 16, 24, 32, 7, 19] + ([48, 64, 96] if big else [])))
        dil_w = dil
        if s == 1 and r.integers(0, 6) == 0 and (k - 1) * 2 + 1 <= min(h, w):
            dil, dil_w = (2, 1) if r.integers(0, 2) else (1, 2)
        kw_ = k
        if k > 1 and r.integers(0, 4) == 0:
            kw_ = int(r.choice([v for v in (1, 2, 3, 5) if v != k and (v - 1) * dil_w + 1 <= w] or [k]))
        return g.conv(x, oc, k, s, pad, act, dil, per_channel=bool(r.integers(0, 4)), dil_w=dil_w, kw=kw_)
    if choice == "tconv":
        s = int(r.choice([1, 2, 2]))
        k = int(r.choice([1, 2, 3, 3, 4]))
        return g.tconv(x, int(r.choice([4, 8, 16, 7])), k, s, int(r.choice([PAD_SAME, PAD_VALID])), per_channel=bool(r.integers(0, 4)), kw=int(r.choice([k, k, 2])))
    if choice == "dw":
        k = min(int(r.choice([2, 3, 3, 5])), h, w)
        s = int(r.choice([1, 1, 2])) if min(h, w) >= 4 else 1
        return g.dwconv(x, k, s, int(r.choice([PAD_SAME, PAD_VALID])), act, per_channel=bool(r.integers(0, 4)))
    if choice == "maxpool":
        k = min(int(r.choice([2, 3])), h, w)
        s = int(r.choice([1, 2])) if min(h, w) >= 4 else 1
        return g.pool(x, "maxpool", k, s, int(r.choice([PAD_SAME, PAD_VALID])), act)
    if choice in ("add", "sub", "mul", "min"):
        # second operand: a conv branch of x, or x itself through a 1x1
        y = g.conv(x, c, 1, 1, PAD_SAME, ACT_NONE) if r.integers(0, 2) else g.pool(x, "maxpool", min(2, h, w), 1, PAD_SAME)
        kind = {"add": "add", "sub": "sub", "mul": "mul", "min": str(r.choice(["min", "max"]))}[choice]
        if kind in ("min", "max"):
            Y = g.T(y)
            # min/max need matching quantisation to be exact on the NPU
            x2 = g.conv(x, c, 1, 1, PAD_SAME, ACT_NONE, oscale=Y.scale[0], ozp=Y.zp[0])
            return g.eltwise(kind, x2, y, oscale=Y.scale[0], ozp=Y.zp[0])
        if r.integers(0, 2):
            x, y = y, x
        return g.eltwise(kind, x, y, act)
    if choice == "addc":
        shp = X.shape if r.integers(0, 2) else [1, 1, 1, c]
        k = g.const_act(shp)
        kind = str(r.choice(["add", "mul", "sub"]))
        return g.eltwise(kind, x, k, act) if r.integers(0, 2) else g.eltwise(kind, k, x, act)
    if choice == "relu":
        return g.unary(str(r.choice(["relu", "relu6", "relu_n1_to_1"])), x)
    if choice == "concat":
        y = g.conv(x, int(r.choice([4, 8, 16, 5])), 1, 1, PAD_SAME, ACT_NONE, oscale=X.scale[0], ozp=X.zp[0])
        return g.concat([x, y] if r.integers(0, 2) else [y, x], 3)
    if choice == "split" and c >= 6 and r.integers(0, 3):
        # SPLIT_V into three or four parts of different sizes, each part processed, then joined again
        nparts = int(r.choice([3, 3, 4])) if c >= 8 else 3
        cuts = sorted(int(v) for v in r.choice(np.arange(1, c), nparts - 1, replace=False))
        sizes = [b - a for a, b in zip([0] + cuts, cuts + [c])]
        ax = 3 if r.integers(0, 3) else int(r.choice([1, 2]))
        if ax != 3:
            d = X.shape[ax]
            if d < nparts:
                ax = 3
            else:
                cuts = sorted(int(v) for v in r.choice(np.arange(1, d), nparts - 1, replace=False))
                sizes = [b - a for a, b in zip([0] + cuts, cuts + [d])]
        parts = g.split_v(x, sizes, ax)
        outs_ = []
        for p_ in parts:
            t_ = int(r.integers(0, 4))
            if t_ == 0:
                q_ = g.pool(p_, "maxpool", 1, 1, PAD_SAME)
            elif t_ == 1:
                q_ = g.unary("relu", p_)
            else:
                # a padded window over the part only: the slice is folded into the consumer as a read offset, the padding belongs at the borders of the part
                q_ = g.pool(p_, "maxpool", int(r.choice([1, 3, 2])), 1, PAD_SAME, kw=int(r.choice([3, 3, 2, 5])))
            outs_.append(q_)
        return g.concat(outs_, ax)
    if choice == "split":
        if c % 2 == 0 and c >= 4:
            a, b = g.split(x, 2, 3)
            a2 = g.conv(a, c // 2, 1, 1, PAD_SAME, act)
            b2 = g.pool(b, "maxpool", min(2, h, w), 1, PAD_SAME)
            A2 = g.T(a2)
            b3 = g.conv(b2, c // 2, 1, 1, PAD_SAME, ACT_NONE, oscale=A2.scale[0], ozp=A2.zp[0])
            return g.concat([a2, b3], 3)
        return g.conv(x, c, 1, 1, PAD_SAME, act)
    if choice == "reshape_rt":
        y = g.reshape(x, [1, h * w, 1, c]) if r.integers(0, 2) else g.reshape(x, [1, w, h, c])
        return g.conv(y, c, 1, 1, PAD_SAME, act)
    if choice == "pad_conv":
        k = int(r.choice([2, 3, 3, 4]))
        if min(h, w) < k:
            return g.conv(x, c, 1, 1, PAD_SAME, act)
        pt, pb, pl, pr = (int(r.integers(0, k // 2 + 1)) for _ in range(4))
        p = g.pad(x, [[0, 0], [pt, pb], [pl, pr], [0, 0]])
        if r.integers(0, 3) == 0:
            return g.pool(p, "maxpool", k, 1, PAD_VALID)
        return g.conv(p, int(r.choice([8, 16])), k, 1, PAD_VALID, act)
    raise AssertionError(choice)


def fam_exact_chain(seed, big=False, dtype=None):
    r = rng_for("exact-chain", seed, big)
    dtype = dtype or str(r.choice(["int8", "int8", "int8", "uint8", "int8", "int16"]))
    g = G(r, dtype)
    h = int(r.choice([4, 7, 8, 12, 16, 24] + ([32, 48] if big else [])))
    w = int(r.choice([4, 5, 8, 12, 16, 24] + ([32, 48] if big else [])))
    c = int(r.choice([1, 3, 4, 8, 16, 17, 32]))
    if not big and r.integers(0, 10) == 0:
        h, w, c = 1, 1, int(r.choice([8, 16, 24, 40]))  # 1x1 spatial: 1x1 convolutions become fully-connected operations
    strided_first = (not big) and (h, w) != (1, 1) and r.integers(0, 4) == 0
    if strided_first:
        # a shallow, horizontally strided first convolution (image input): the compiler folds the x stride into the channels and pads the filter;
        # asymmetric uint8 filters in half of them
        c = int(r.choice([1, 3, 4]))
        h, w = max(h, 8), max(w, 8)
        if r.integers(0, 3):
            g.dtype = dtype = "uint8"
    x = g.input([1, h, w, c])
    n = int(r.integers(2, 7 if not big else 10))
    if strided_first:
        sw = int(r.choice([2, 2, 3]))
        x = g.conv(x, int(r.choice([8, 16])), int(r.choice([3, 3, 5, 2])), int(r.choice([1, sw])), int(r.choice([PAD_SAME, PAD_VALID])), int(r.choice([ACT_NONE, ACT_RELU])), stride_w=sw,
                   kw=int(r.choice([3, 3, 5, 4])))
        n -= 1
    for _ in range(n):
        x = _rand_exact_op(g, x, big=big)
    outs = [x]
    if r.integers(0, 4) == 0:
        X = g.T(x)
        y = g.reshape(x, [1, int(np.prod(X.shape))])
        outs = [g.fc(y, int(r.choice([4, 10, 16, 33])), int(r.choice([ACT_NONE, ACT_RELU])))]
    return g.finish(outs, "exact-chain", "exact")


def fam_strided_first(seed):
    """image-like input (1, 3 or 4 channels) into a horizontally strided first convolution - the compiler folds the x stride into the channels, narrows the
    IFM and pads the filter columns (with the filter's zero point) - followed by a few exact operators; two thirds with asymmetric uint8 filters"""
    r = rng_for("strided-first", seed)
    dtype = "uint8" if r.integers(0, 3) else str(r.choice(["int8", "int16"]))
    g = G(r, dtype)
    c = int(r.choice([1, 3, 3, 4]))
    sw = int(r.choice([2, 2, 2, 3, 4])) if c == 1 else 2
    h = int(r.choice([6, 8, 9, 12, 16]))
    w = sw * int(r.choice([4, 5, 6, 8, 12]))
    x = g.input([1, h, w, c])
    x = g.conv(x, int(r.choice([8, 16, 5])), int(r.choice([1, 2, 3, 3, 5])), int(r.choice([1, 2])), int(r.choice([PAD_SAME, PAD_VALID])), int(r.choice([ACT_NONE, ACT_RELU, ACT_RELU6])),
               stride_w=sw, kw=int(r.choice([2, 3, 3, 4, 5, 7])), per_channel=bool(r.integers(0, 2)))
    for _ in range(int(r.integers(0, 3))):
        x = _rand_exact_op(g, x)
    return g.finish([x], "strided-first", "exact")


def fam_exact_dag(seed):
    r = rng_for("exact-dag", seed)
    g = G(r, str(r.choice(["int8", "int8", "uint8"])))
    h, w, c = int(r.choice([6, 8, 12, 16])), int(r.choice([6, 8, 12, 16])), int(r.choice([4, 8, 16]))
    x = g.input([1, h, w, c])
    two_in = r.integers(0, 3) == 0
    pool = [x]
    extra = []
    if two_in:
        pool.append(g.input([1, h, w, c]))
    for _ in range(int(r.integers(3, 8))):
        src = pool[int(r.integers(0, len(pool)))]
        S = g.T(src)
        if S.shape[1:3] != [h, w]:
            continue
        k = r.integers(0, 5)
        if k == 0:
            y = g.conv(src, c, int(r.choice([1, 3])), 1, PAD_SAME, int(r.choice([0, 1, 3])))
        elif k == 1:
            y = g.dwconv(src, 3, 1, PAD_SAME, int(r.choice([0, 1])))
        elif k == 2 and len(pool) > 1:
            other = pool[int(r.integers(0, len(pool)))]
            if g.T(other).shape == S.shape:
                y = g.eltwise(str(r.choice(["add", "sub", "mul"])), src, other, int(r.choice([0, 1])))
            else:
                continue
        elif k == 3:
            y = g.pool(src, "maxpool", 3, 1, PAD_SAME)
        else:
            y = g.eltwise("add", src, src)  # duplicated inputs
        pool.append(y)
        if r.integers(0, 5) == 0 and src not in g.net.inputs:
            # the same feature map also feeds a RESHAPE that cannot be bypassed (its input has other consumers): the copy must see the layout it expects
            S2 = g.T(src)
            flat = g.reshape(src, [1, int(np.prod(S2.shape))])
            extra.append(g.fc(flat, int(r.choice([4, 10, 16]))))
    consumed = set(i for o in g.net.ops for i in o.inputs)
    outs = [p for p in pool if p not in consumed and p not in g.net.inputs]
    if not outs:
        outs = [pool[-1]]
    if len(outs) > 3:
        outs = outs[:3]
    outs += extra[:2]
    # make sure every input is used
    for i in g.net.inputs:
        if i not in consumed:
            outs.append(g.conv(i, c, 1, 1, PAD_SAME))
    return g.finish(outs, "exact-dag", "exact")


APPROX_TAILS = ["avgpool_pad", "avgpool", "resize_bilinear", "resize_nearest", "logistic", "tanh", "leaky_relu", "hard_swish", "mean", "softmax", "concat_requant", "mul_max"]


def fam_approx_tail(seed, tail=None):
    r = rng_for("approx-tail", seed)
    g = G(r, "int8" if r.integers(0, 4) else "uint8")
    tail = tail or APPROX_TAILS[seed % len(APPROX_TAILS)]
    if tail == "concat_requant":
        g.dtype = "uint8"
    if g.dtype == "uint8" and tail in ("hard_swish", "leaky_relu"):
        g.dtype = "int8"
    h, w, c = int(r.choice([4, 6, 8, 12])), int(r.choice([4, 6, 8, 12])), int(r.choice([4, 8, 16, 5]))
    x = g.input([1, h, w, c])
    for _ in range(int(r.integers(0, 3))):
        x = _rand_exact_op(g, x)
    X = g.T(x)
    _, h, w, c = X.shape
    tol = 1
    if tail == "avgpool_pad":
        k = min(3, h, w)
        x = g.pool(x, "avgpool", k, 1, PAD_SAME)
    elif tail == "avgpool":
        k = min(int(r.choice([2, 3])), h, w)
        x = g.pool(x, "avgpool", k, int(r.choice([1, 2])) if min(h, w) > 2 else 1, PAD_VALID)
    elif tail in ("resize_bilinear", "resize_nearest"):
        f = int(r.choice([2, 4])) if max(h, w) <= 8 else 2
        ac = bool(r.integers(0, 2))
        hp = (not ac) and bool(r.integers(0, 2))
        if r.integers(0, 4) == 0 and len(g.net.ops) == 0:
            # tall and narrow / wide and flat maps: row and column strides of the interleaved output tiles differ by a large factor
            hh, ww = int(r.choice([16, 24, 32])), int(r.choice([2, 4]))
            h, w = (hh, ww) if r.integers(0, 3) else (ww, hh)
            f = 2
            g.net.tensors[-1].shape = [1, h, w, c]
        oh, ow = (h * f, w * f) if not ac else ((h - 1) * f + 1, (w - 1) * f + 1)
        if ac and (h == 1 or w == 1):
            ac, oh, ow = False, h * f, w * f
        x = g.resize(x, tail if tail == "resize_bilinear" else "resize_nearest", oh, ow, ac, hp)
    elif tail in ("logistic", "tanh", "hard_swish", "leaky_relu"):
        if r.integers(0, 2):
            # the producer carries its own fused clamp: the table activation must be applied on top of it, not instead of it
            x = g.conv(x, int(r.choice([4, 8, 16])), int(r.choice([1, 3])) if min(h, w) >= 3 else 1, 1, PAD_SAME, int(r.choice([ACT_RELU, ACT_RELU6, ACT_RELU_N1_1])),
                       oscale=float(r.choice([0.05, 0.1, 0.02])))
        x = g.unary(tail, x)
    elif tail == "concat_requant":
        # CONCATENATION whose inputs carry other quantisation than the output (uint8 only in the reference): each input is copied with a rescale
        y = g.conv(x, int(r.choice([4, 8, 16])), 1, 1, PAD_SAME, 0)
        z = g.conv(x, int(r.choice([4, 8])), 1, 1, PAD_SAME, 0)
        ax = 3 if r.integers(0, 3) else int(r.choice([1, 2]))
        if ax != 3:
            z = g.conv(x, g.T(y).shape[3], 1, 1, PAD_SAME, 0)
        x = g.concat([y, z] if r.integers(0, 2) else [z, y], ax, same_q=False, oscale=g.rscale(0.01, 0.1), ozp=g.rzp())
    elif tail == "mul_max":
        x = g.mul_max(x)
    elif tail == "mean":
        x = g.mean(x, (1, 2), bool(r.integers(0, 2)))
    elif tail == "softmax":
        y = g.reshape(x, [1, h * w * c]) if r.integers(0, 2) else g.reshape(x, [h * w, c])
        x = g.softmax(y, float(r.choice([1.0, 0.5, 2.0])))
        tol = 0  # 8-bit softmax: the reference is the fixed-point kernel itself, which the lowering is meant to reproduce exactly
    if r.integers(0, 3) == 0 and len(g.T(x).shape) == 4:
        X = g.T(x)
        x = g.reshape(x, [1, X.shape[1] * X.shape[2], 1, X.shape[3]])
    return g.finish([x], "approx-tail:" + tail, "approx", tol)


def fam_stripe_stress(seed):
    r = rng_for("stripe", seed)
    g = G(r, "int8")
    h = int(r.choice([24, 32, 40, 56, 64, 33]))
    w = int(r.choice([8, 16, 24, 32]))
    c = int(r.choice([8, 16, 32]))
    x = g.input([1, h, w, c])
    for _ in range(int(r.integers(2, 6))):
        X = g.T(x)
        _, hh, ww, cc = X.shape
        k = int(r.choice([1, 2, 3, 3, 5, 7]))
        k = min(k, hh, ww)
        s = int(r.choice([1, 1, 1, 2, 3])) if min(hh, ww) >= 8 else 1
        dil = int(r.choice([1, 1, 2])) if s == 1 and (k - 1) * 2 + 1 <= min(hh, ww) else 1
        pad = int(r.choice([PAD_SAME, PAD_VALID]))
        t = r.integers(0, 4)
        if t == 0:
            x = g.dwconv(x, max(k, 2) if min(hh, ww) >= 2 else 1, s if s < 3 else 1, pad, int(r.choice([0, 1])))
        elif t == 1 and min(hh, ww) >= 3:
            x = g.pool(x, "maxpool", min(3, k + 1), min(s, 2), pad)
        else:
            dw_ = dil
            if s == 1 and r.integers(0, 3) == 0 and (k - 1) * 2 + 1 <= min(hh, ww):
                dil, dw_ = (2, 1) if r.integers(0, 2) else (1, 2)  # different dilation along height and width
            kw_ = k
            if r.integers(0, 3) == 0:
                kw_ = int(r.choice([v for v in (1, 2, 3, 5) if v != k and (v - 1) * dw_ + 1 <= ww] or [k]))  # kernel taller than wide or wider than tall
            x = g.conv(x, int(r.choice([8, 16, 32])), k, s, pad, int(r.choice([0, 1, 3])), dil, dil_w=dw_, kw=kw_)
    return g.finish([x], "stripe-stress", "exact")


def fam_buffer_stress(seed):
    r = rng_for("buffer", seed)
    g = G(r, "int8")
    h, w = int(r.choice([4, 8, 12])), int(r.choice([4, 8, 12]))
    c = int(r.choice([32, 64, 128]))
    x = g.input([1, h, w, c])
    for _ in range(int(r.integers(2, 5))):
        oc = int(r.choice([64, 128, 192, 256, 320, 72, 104, 136, 200, 312]))
        k = int(r.choice([1, 1, 3]))
        x = g.conv(x, oc, k, 1, PAD_SAME, int(r.choice([0, 1])))
    if r.integers(0, 2):
        X = g.T(x)
        y = g.reshape(x, [1, int(np.prod(X.shape))])
        x = g.fc(y, int(r.choice([32, 100, 256])))
    return g.finish([x], "buffer-stress", "exact")


def fam_shared_weights(seed):
    """several convolutions consuming one filter tensor: other input scales (separate bias), the same bias tensor, or activations of the other width
    (int8 / int16) - the compiler keeps one process-wide cache of encoded weights keyed by the filter tensor"""
    r = rng_for("sharedw", seed)
    g = G(r, "int8")
    h, w = int(r.choice([3, 4, 6, 8])), int(r.choice([3, 4, 8]))
    ic = int(r.choice([3, 8, 16, 24, 40, 64]))
    oc = int(r.choice([8, 16, 17, 32, 33, 48]))
    k = int(r.choice([1, 1, 2, 3]))
    kw = int(r.choice([k, 1]))
    pc = bool(r.integers(0, 2))
    d0 = "int16" if r.random() < 0.3 else "int8"
    x = g.input([1, h, w, ic], dtype=d0)
    st = 1
    if d0 == "int8" and r.integers(0, 3) == 0:
        # shallow, strided first convolution: the optimiser reshapes IFM and filter of the first operator only; a later user of the same filter keeps it
        ic, st, kw = int(r.choice([1, 2, 3, 4])), 2, int(r.choice([2, 2, 3]))
        w = int(r.choice([4, 8, 12]))
        g2 = None
        x = g.input([1, h, w, ic], dtype=d0)
    y0 = g.conv(x, oc, k, st, PAD_SAME, int(r.choice([0, 1])), per_channel=pc, kw=kw, bias64=bool(r.integers(0, 5)), stride_w=st)
    wname, bname = g.last_conv
    outs = [y0]
    for _ in range(int(r.integers(1, 4))):
        mode = int(r.integers(0, 4))
        if mode == 3 and d0 == "int16":
            mode = 0
        if mode == 3:  # a transpose convolution consuming the same filter (the hardware needs it reversed in H and W)
            x2 = g.input([1, h, w, ic], dtype=d0)
            outs.append(g.tconv(x2, oc, k, int(r.choice([1, 2])), PAD_SAME, per_channel=pc, kw=kw, share_w=wname))
        elif mode == 0:  # same activation type, other scales, own bias
            x2 = g.input([1, h, w, ic], dtype=d0)
            outs.append(g.conv(x2, oc, k, st, PAD_SAME, int(r.choice([0, 1])), per_channel=pc, kw=kw, share_w=wname, stride_w=st))
        elif mode == 1:  # same filter and the same bias: input with the same scale
            X = g.T(x)
            x2 = g.input([1, h, w, ic], scale=X.scale[0], dtype=d0)
            outs.append(g.conv(x2, oc, k, st, PAD_SAME, int(r.choice([0, 1])), per_channel=pc, kw=kw, share_w=wname, share_b=bname, stride_w=st))
        else:  # activations of the other width
            d1 = "int8" if d0 == "int16" else "int16"
            x2 = g.input([1, h, w, ic], dtype=d1)
            outs.append(g.conv(x2, oc, k, 1, PAD_SAME, int(r.choice([0, 1])), per_channel=pc, kw=kw, share_w=wname, bias64=bool(r.integers(0, 5))))
    return g.finish(outs, "shared-weights", "exact")


def fam_lut_stress(seed):
    r = rng_for("lut", seed)
    g = G(r, "int8")
    h, w, c = int(r.choice([4, 8, 12, 24, 32])), int(r.choice([4, 8])), int(r.choice([8, 16]))  # tall maps: table operations striped inside cascades
    x = g.input([1, h, w, c])
    kinds = ["logistic", "tanh", "leaky_relu", "hard_swish"]
    n = int(r.integers(2, 6))
    same_scale = g.rscale()
    same_zp = g.rzp()
    repeat = r.integers(0, 3) == 0  # the same table again and again, with nothing but operators carrying their own fused clamp in between
    rkind = str(r.choice(["logistic", "tanh"]))
    for i in range(n):
        # force equal quantisation before some activations so that LUT contents coincide
        if repeat:
            x = g.conv(x, c, int(r.choice([1, 3])), 1, PAD_SAME, int(r.choice([ACT_RELU, ACT_RELU6, ACT_RELU, ACT_NONE])), oscale=same_scale, ozp=same_zp)
        elif r.integers(0, 2):
            x = g.conv(x, c, int(r.choice([1, 3])), 1, PAD_SAME, int(r.choice([0, 0, ACT_RELU])), oscale=same_scale, ozp=same_zp)
        else:
            x = g.conv(x, c, 1, 1, PAD_SAME, 0)
        kind = rkind if repeat else str(r.choice(kinds))
        x = g.unary(kind, x, alpha=0.1 if kind == "leaky_relu" else None)
    return g.finish([x], "lut-stress", "approx", tol=None)  # error may accumulate: not used for C01 equality


def fam_alias_stress(seed):
    r = rng_for("alias", seed)
    g = G(r, "int8")
    h, w, c = int(r.choice([4, 8, 16])), int(r.choice([4, 8, 16])), int(r.choice([8, 16, 32]))
    x = g.input([1, h, w, c])
    y = g.input([1, h, w, c]) if r.integers(0, 2) else g.conv(x, c, 1, 1, PAD_SAME)
    vals = [x, y]
    for _ in range(int(r.integers(3, 9))):
        a = vals[int(r.integers(0, len(vals)))]
        b = vals[int(r.integers(0, len(vals)))]
        kind = str(r.choice(["add", "sub", "mul", "add"]))
        z = g.eltwise(kind, a, b, int(r.choice([0, 0, 1])))
        vals.append(z)
        if r.integers(0, 4) == 0:
            vals.append(g.unary("relu", z))
    if r.integers(0, 4) == 0:
        # a decomposed PRELU in the middle of a residual block: its internal intermediates must not land on its input, which the skip connection still needs
        base = g.conv(vals[-1], c, 1, 1, PAD_SAME, 0)
        p_ = g.prelu(base, big=bool(r.integers(0, 4)))
        q_ = g.conv(p_, c, int(r.choice([1, 3])), 1, PAD_SAME, 0)
        B_ = g.T(base)
        q2 = g.conv(p_, c, 1, 1, PAD_SAME, 0, oscale=B_.scale[0], ozp=B_.zp[0]) if r.integers(0, 2) else q_
        vals.append(g.eltwise("add", q2, base))
    consumed = set(i for o in g.net.ops for i in o.inputs)
    outs = [v for v in vals if v not in consumed and v not in g.net.inputs][:3] or [vals[-1]]
    if r.integers(0, 3) == 0 and len(vals) > 4:
        mid = vals[3]
        if mid not in outs and mid not in g.net.inputs:
            outs.append(mid)  # an output that is also consumed
    for i in g.net.inputs:
        if i not in consumed:
            outs.append(g.unary("relu", i))
    return g.finish(outs, "alias-stress", "exact")


def fam_cpu_mix(seed):
    r = rng_for("cpu-mix", seed)
    g = G(r, "int8")
    g.minmax = seed % 2 == 0  # half of the networks carry min / max in their quantisation tables
    h, w, c = int(r.choice([4, 8, 12])), int(r.choice([4, 8, 12])), int(r.choice([4, 8, 16]))
    x = g.input([1, h, w, c])
    extra_in = None
    if r.integers(0, 3) == 0:
        extra_in = g.input([1, h, w, c])
    outs = []
    n = int(r.integers(3, 9))
    if r.integers(0, 4) == 0:
        # a graph input consumed by an accelerated elementwise operator (a candidate for writing its result over its input) and again by a later CPU operator
        x0 = x
        X0 = g.T(x0)
        pick = r.integers(0, 3)
        if pick == 0:
            a = g.unary("abs", x0, oscale=X0.scale[0], ozp=X0.zp[0])
        elif pick == 1:
            a = g.eltwise("add", x0, g.const_act([1, 1, 1, c]), oscale=X0.scale[0], ozp=X0.zp[0])
        else:
            a = g.unary("leaky_relu", x0, oscale=X0.scale[0], ozp=X0.zp[0])
        if r.integers(0, 2):
            x = g.cpu_op(a, "floor_div", other=x0)
        else:
            # ... or by an accelerated operator of a later Ethos-U subgraph (the CPU operator in between splits the graph)
            s_ = g.cpu_op(a, str(r.choice(["neg", "custom", "reverse"])))
            x = g.eltwise(str(r.choice(["add", "sub", "mul"])), *((s_, x0) if r.integers(0, 2) else (x0, s_)))
        n = int(r.integers(1, 4))
    if r.integers(0, 5) == 0:
        # a tensor produced on the accelerator and read by two or three operators that fall back to the CPU
        y = g.conv(x, int(r.choice([4, 8])), 1, 1, PAD_SAME, int(r.choice([0, 1]))) if r.integers(0, 2) else g.unary("relu", x)
        kinds_ = [str(k_) for k_ in r.permutation(["neg", "custom", "reverse", "dequantize"])[: int(r.integers(2, 4))]]
        cpu_outs = [g.cpu_op(y, k_) for k_ in kinds_]
        outs += [o_ for o_, k_ in zip(cpu_outs, kinds_) if k_ == "dequantize"][:1]
        keep = [o_ for o_, k_ in zip(cpu_outs, kinds_) if k_ != "dequantize"]
        outs += keep[1:]
        x = keep[0] if keep else y
        if r.integers(0, 2):
            x = g.eltwise("add", x, y) if g.T(x).shape == g.T(y).shape and g.T(x).dtype == g.T(y).dtype else x
    if r.integers(0, 3) == 0 and len(g.T(x).shape) == 4:
        # an accelerated tensor read by an accelerated RESHAPE (a copy, or an alias, inside the Ethos-U operator) whose result is updated in place, and also by a CPU
        # operator afterwards: the copy must not be folded onto the tensor the CPU still needs
        y = g.conv(x, int(r.choice([4, 8])), 1, 1, PAD_SAME, 0) if r.integers(0, 2) else g.unary("relu", x)
        Y = g.T(y)
        rs = g.reshape(y, [1, Y.shape[1] * Y.shape[2], 1, Y.shape[3]] if r.integers(0, 2) else [1, Y.shape[2], Y.shape[1], Y.shape[3]])
        s_ = g.eltwise(str(r.choice(["add", "add", "sub"])), rs, g.const_act([1, 1, 1, Y.shape[3]]) if r.integers(0, 2) else g.input(g.T(rs).shape), oscale=Y.scale[0], ozp=Y.zp[0])
        outs.append(s_)
        x = g.cpu_op(y, str(r.choice(["neg", "custom", "reverse"])))
    if r.integers(0, 5) == 0 and len(g.T(x).shape) == 4:
        # a CPU-resident memory-only operator (RESHAPE whose shape is only known at run time) right next to accelerated operators
        if r.integers(0, 2):
            x = g.conv(x, int(r.choice([4, 8])), 1, 1, PAD_SAME, 0)
        X = g.T(x)
        x = g.reshape(x, [1, X.shape[2], X.shape[1], X.shape[3]] if r.integers(0, 2) else [1, X.shape[1] * X.shape[2], 1, X.shape[3]], dynamic_shape=True)
        x = g.conv(x, int(r.choice([4, 8])), 1, 1, PAD_SAME, int(r.choice([0, 1])))
    for i in range(n):
        t = r.integers(0, 10)
        if t <= 3:
            x = _rand_exact_op(g, x)
        elif t == 4 and r.integers(0, 3) == 0 and len(g.T(x).shape) == 4:
            X = g.T(x)
            x = g.reshape(x, [1, X.shape[2], X.shape[1], X.shape[3]] if r.integers(0, 2) else [1, X.shape[1] * X.shape[2], 1, X.shape[3]], dynamic_shape=True)
        elif t == 4 and r.integers(0, 2) == 0 and x not in g.net.inputs:
            # residual connection around a CPU-resident operator: an accelerated binary operator reads the accelerated tensor and the CPU result, in either operand order
            f = g.cpu_op(x, str(r.choice(["custom", "neg", "reverse"])))
            if g.T(f).shape == g.T(x).shape and g.T(f).dtype == g.T(x).dtype:
                x = g.eltwise(str(r.choice(["add", "sub", "mul"])), *((x, f) if r.integers(0, 2) else (f, x)))
            else:
                x = f
        elif t == 4:
            x = g.cpu_op(x, str(r.choice(["custom", "neg", "floor_div", "reverse"])))
        elif t == 5:
            # dynamic weights conv -> CPU
            X = g.T(x)
            wname = g.name("dynw")
            W = g.net.add_t(wname, (4, 1, 1, X.shape[3]), "int8", [0.01], [0])
            g.net.inputs.append(wname)
            B = g.const(g.name("dynb"), (4,), "int32", r.integers(-100, 100, (4,)), [float(np.float32(X.scale[0] * 0.01))], [0])
            o = g.act(g.name("dynconv_o"), (1, X.shape[1], X.shape[2], 4))
            g.net.add_o(BO.CONV_2D, [x, W.name, B.name], [o.name], "Conv2DOptions",
                        dict(padding=PAD_SAME, stride_w=1, stride_h=1, dilation_w_factor=1, dilation_h_factor=1, fused_activation_function=0), 3)
            g.kinds.append("cpu:dynconv")
            x = o.name
        elif t == 6:
            # supported type, unsupported attribute: conv stride 4 in h with... use kernel too large (h > 64) impossible here -> dilation*k>64? use stride 4
            X = g.T(x)
            if min(X.shape[1:3]) >= 4:
                x = g.conv(x, 8, 1, 4, PAD_VALID, 0)  # stride 4: rewritten or CPU depending on constraints; both fine for C11
            else:
                x = g.cpu_op(x, "custom")
        elif t == 7 and extra_in is not None:
            if g.T(extra_in).shape == g.T(x).shape:
                x = g.eltwise("add", x, extra_in)
        elif t == 8:
            outs.append(x)  # intermediate that is also a graph output
            x = g.unary("relu", x)
        else:
            x = g.unary(str(r.choice(["logistic", "tanh"])), x)
    if seed % 4 == 1 and len(g.T(x).shape) == 4 and g.T(x).dtype.name == "int8":
        # a variable (persistent state) tensor read by one CPU operator in the middle of the network, with accelerated and CPU operators after its last use: its
        # arena bytes are its own for the whole inference.  Own random stream, drawn after everything else: the rest of the network is what it always was.
        r2 = rng_for("cpu-mix-variable", seed)
        X = g.T(x)
        vname = g.name("state")
        V = g.net.add_t(vname, list(X.shape), "int8", [X.scale[0]], [X.zp[0]])
        V.is_variable = True
        x = g.cpu_op(x, "floor_div", other=vname)
        for _ in range(int(r2.integers(2, 5))):
            x = g.conv(x, int(r2.choice([4, 8, 16])), int(r2.choice([1, 3])) if min(g.T(x).shape[1:3]) >= 3 else 1, 1, PAD_SAME, 0)
            if r2.integers(0, 2):
                x = g.cpu_op(x, str(r2.choice(["neg", "custom", "reverse"])))
    outs.append(x)
    consumed = set(i for o in g.net.ops for i in o.inputs)
    for i in list(g.net.inputs):
        if i not in consumed and g.T(i).data is None and i not in outs:
            if r.integers(0, 2):
                outs.append(i)  # pass-through input -> output
    outs = list(dict.fromkeys(outs))
    return g.finish(outs, "cpu-mix", "cpu-mix", tol=None)


def fam_stripe_resize(seed):
    """a 2x / 4x resize in the middle of a chain of convolutions on a tall feature map: under memory pressure the resize is striped inside a cascade
    (nearest-neighbour upscaled IFM, kernel over the replicated rows).  No output tolerance is claimed (the resize is approximated mid-network)."""
    r = rng_for("stripe-resize", seed)
    g = G(r, "int8")
    h, w, c = int(r.choice([16, 24, 32, 40])), int(r.choice([8, 12, 16, 2, 4])), int(r.choice([8, 16]))
    x = g.input([1, h, w, c])
    x = g.conv(x, int(r.choice([8, 16])), int(r.choice([1, 3])), 1, PAD_SAME, int(r.choice([0, 1])))
    f = int(r.choice([2, 2, 4]))
    kind = str(r.choice(["resize_bilinear", "resize_bilinear", "resize_nearest"]))
    ac = bool(r.integers(0, 4) == 0)
    hp = (not ac) and r.integers(0, 3) == 0  # half-pixel centres: the bilinear resize is lowered to four interleaved depthwise convolutions
    if w <= 4 and r.integers(0, 3):
        kind, ac, hp, f = "resize_bilinear", False, True, 2  # tall and narrow: row and column strides of the four interleaved tiles differ widely
    X = g.T(x)
    oh, ow = (X.shape[1] * f, X.shape[2] * f) if not ac else ((X.shape[1] - 1) * f + 1, (X.shape[2] - 1) * f + 1)
    x = g.resize(x, kind, oh, ow, ac, hp)
    for _ in range(int(r.integers(0 if hp or w <= 4 else 1, 3))):  # without a consumer the resized map is the last (topmost) tensor of the arena
        k_ = int(r.choice([1, 3, 3]))
        pad_ = int(r.choice([PAD_SAME, PAD_VALID]))
        if min(g.T(x).shape[1:3]) < k_:
            pad_ = PAD_SAME
        x = g.conv(x, int(r.choice([8, 16])), k_, 1, pad_, int(r.choice([0, 1])))
    return g.finish([x], "stripe-resize", "approx-mid", None)


def fam_mixed_width(seed):
    """16-bit activations narrowed to 8 bits in the middle of a tall chain of convolutions: under memory pressure the narrowing operator sits inside a
    cascade, where buffers are sized per operator from element widths"""
    r = rng_for("mixed-width", seed)
    g = G(r, "int8")
    h, w, c = int(r.choice([32, 48, 64])), int(r.choice([16, 32, 64])), int(r.choice([4, 8]))
    x = g.input([1, h, w, c], dtype="int16")
    x = g.conv(x, int(r.choice([16, 32, 64])), 3, 1, PAD_SAME, int(r.choice([0, 1])))
    x = g.unary("quantize", x, g.rscale(0.01, 0.1), g.rzp("int8"))
    for _ in range(int(r.integers(2, 4))):
        x = g.conv(x, int(r.choice([8, 16, 32])), int(r.choice([1, 3, 3])), 1, PAD_SAME, int(r.choice([0, 1])))
    return g.finish([x], "mixed-width", "exact")


def fam_tiny(seed):
    """single-operator networks: nothing is weight-buffered, cascaded or (on dedicated-SRAM systems) placed in SRAM at all"""
    r = rng_for("tiny", seed)
    g = G(r, str(r.choice(["int8", "int8", "uint8"])))
    h, w, c = int(r.choice([1, 2, 4, 8])), int(r.choice([1, 2, 4, 8])), int(r.choice([1, 4, 8, 16]))
    x = g.input([1, h, w, c])
    t = int(r.integers(0, 7))
    if t == 0:
        y = g.eltwise(str(r.choice(["add", "mul", "sub"])), x, g.input([1, h, w, c]))
    elif t == 1:
        y = g.pool(x, "maxpool", min(2, h, w), 1, PAD_SAME)
    elif t == 2:
        y = g.fc(g.reshape(x, [1, h * w * c]), int(r.choice([4, 10])))
    elif t == 3:
        y = g.conv(x, int(r.choice([4, 8])), 1, 1, PAD_SAME, int(r.choice([0, 1])))
    elif t == 4:
        y = g.unary(str(r.choice(["relu", "relu6", "abs"])), x)
    elif t == 5:
        y = g.eltwise("add", x, g.const_act([1, 1, 1, c]))
    else:
        y = g.dwconv(x, min(2, h, w), 1, PAD_SAME, 0)
    return g.finish([y], "tiny", "exact")


def fam_shape_ops(seed):
    """Rank-changing memory-only operators in the middle of a 4D flow (SQUEEZE / EXPAND_DIMS / PACK / UNPACK / SLICE / STRIDED_SLICE): each is rewritten into
    reshapes, concatenation writes or read offsets, so the tensors on both sides must keep denoting the same bytes.  Exact class."""
    r = rng_for("shape-ops", seed)
    g = G(r, str(r.choice(["int8", "int8", "uint8", "int16"])))
    t = int(r.integers(0, 9))
    c = int(r.choice([4, 8, 16, 5, 24]))
    act = int(r.choice([ACT_NONE, ACT_RELU]))
    if t >= 6:
        # both operands of a binary elementwise operator are parts of one SPLIT / SPLIT_V / UNPACK result (each operand carries its own read offset); in a third
        # of the cases one more part is handed to an operator that stays on the CPU (the accelerated split must still produce that part)
        h, w = int(r.choice([2, 4, 6])), int(r.choice([2, 4, 8]))
        ax = int(r.choice([1, 2, 3, 3]))
        n = int(r.choice([2, 3, 4]))
        dims = [1, h, w, c]
        if t == 8:
            sizes = [int(v) for v in r.integers(1, 5, n)]
            sizes[1] = sizes[0]
        else:
            sizes = [int(r.choice([1, 2, 4, 8]))] * n
        dims[ax] = sum(sizes)
        x = g.conv(g.input(dims), dims[3], 1, 1, PAD_SAME, act)
        parts = g.split_v(x, sizes, ax) if t == 8 else g.split(x, n, ax)
        kind = str(r.choice(["add", "sub", "mul", "add"]))
        a_, b_ = (parts[0], parts[1]) if r.integers(0, 2) else (parts[1], parts[0])
        y = g.eltwise(kind, a_, b_, act)
        outs = [g.conv(y, int(r.choice([4, 8])), 1, 1, PAD_SAME, ACT_NONE) if r.integers(0, 2) else y]
        for p_ in parts[2:]:
            k_ = int(r.integers(0, 3))
            outs.append(g.cpu_op(p_, str(r.choice(["custom", "neg", "reverse"]))) if k_ == 0 else g.unary("relu", p_) if k_ == 1 else g.eltwise("add", p_, parts[0]) if g.T(p_).shape == g.T(parts[0]).shape else g.unary("relu6", p_))
        return g.finish(outs, "shape-ops", "exact")
    if t == 0:
        # squeeze a unit height away, work on the 3D tensor, expand it again at another position
        w = int(r.choice([4, 8, 12, 33]))
        x = g.conv(g.input([1, 1, w, c]), c, 1, 1, PAD_SAME, act)
        y = g.squeeze(x, [1])  # [1, w, c]
        if r.integers(0, 2):
            y = g.unary("relu", y)
        elif r.integers(0, 2):
            y = g.eltwise(str(r.choice(["add", "mul"])), y, g.const_act([1, 1, c]))
        ax = int(r.choice([1, 2]))
        z = g.expand_dims(y, ax)  # [1, 1, w, c] or [1, w, 1, c]
        out = g.conv(z, int(r.choice([4, 8, 16])), 1, 1, PAD_SAME, act)
    elif t == 1:
        # squeeze the batch, elementwise on 3D, expand the batch back (axis 0 / -4 spelled negatively in half of the cases)
        h, w = int(r.choice([2, 4, 8])), int(r.choice([2, 4, 8]))
        x = g.conv(g.input([1, h, w, c]), c, int(r.choice([1, 3])) if min(h, w) >= 3 else 1, 1, PAD_SAME, act)
        y = g.squeeze(x, [0])
        y = g.eltwise("add", y, g.const_act([h, w, c])) if r.integers(0, 2) else g.unary("relu6", y)
        z = g.expand_dims(y, 0 if r.integers(0, 2) else -4)
        out = g.pool(z, "maxpool", min(2, h, w), 1, PAD_SAME)
    elif t == 2:
        # PACK of two or three 3D branches along any axis, read back as 4D
        h, w = int(r.choice([2, 4, 6])), int(r.choice([2, 4, 6]))
        n = int(r.choice([2, 2, 3]))
        unit = bool(r.integers(0, 3))  # two thirds: the packed result keeps a leading dimension of one (height-one maps squeezed to [1, w, c])
        if unit:
            h = 1
        x = g.input([1, h, w, c])
        base = g.conv(x, c, 1, 1, PAD_SAME, ACT_NONE)
        B = g.T(base)
        brs = [base] + [g.conv(x, c, 1, 1, PAD_SAME, act, oscale=B.scale[0], ozp=B.zp[0]) for _ in range(n - 1)]
        if unit:
            brs3 = [g.squeeze(b_, [1]) if r.integers(0, 2) else g.reshape(b_, [1, w, c]) for b_ in brs]
            ax = int(r.integers(1, 4))
            p_ = g.pack(brs3, ax)  # [1, n, w, c] / [1, w, n, c] / [1, w, c, n]
            tgt = {1: [1, n, w, c], 2: [1, 1, w * n, c], 3: [1, 1, w, c * n]}[ax]
            z = g.reshape(p_, tgt) if ax != 1 or r.integers(0, 2) else p_
        else:
            brs3 = [g.reshape(b_, [h, w, c]) if r.integers(0, 2) else g.squeeze(b_, [0]) for b_ in brs]
            ax = int(r.integers(0, 4))
            p_ = g.pack(brs3, ax)
            tgt = {0: [1, n * h, w, c], 1: [1, h, n * w, c], 2: [1, h, w * n, c], 3: [1, h, w, c * n]}[ax]
            z = g.reshape(p_, tgt)
        out = g.conv(z, int(r.choice([4, 8])), 1, 1, PAD_SAME, act) if r.integers(0, 2) else g.pool(z, "maxpool", 1, 1, PAD_SAME)
    elif t == 3:
        # UNPACK along a short axis, each part processed on its own, joined again
        h, w = int(r.choice([2, 3, 4])), int(r.choice([2, 3, 4, 8]))
        x = g.conv(g.input([1, h, w, c]), c, 1, 1, PAD_SAME, act)
        x3 = g.squeeze(x, [0])
        ax = int(r.choice([0, 0, 1])) if w <= 4 else 0
        parts = g.unpack(x3, ax)  # n x [w, c] or [h, c]
        rest = w if ax == 0 else h
        X = g.T(x)
        outs_ = []
        for p_ in parts:
            q_ = g.reshape(p_, [1, 1, rest, c])
            k_ = int(r.integers(0, 3))
            outs_.append(g.unary("relu", q_) if k_ == 0 else g.pool(q_, "maxpool", 1, 1, PAD_SAME, kw=min(3, rest)) if k_ == 1
                         else g.conv(q_, c, 1, 1, PAD_SAME, ACT_NONE, oscale=X.scale[0], ozp=X.zp[0]))
        out = g.concat(outs_, int(r.choice([1, 3])))
    elif t == 4:
        # SLICE / STRIDED_SLICE with offsets on several axes at once, followed by a padded window
        h, w = int(r.choice([6, 8, 12])), int(r.choice([6, 8, 12]))
        x = g.conv(g.input([1, h, w, c]), c, 1, 1, PAD_SAME, act)
        bh, bw = int(r.integers(0, h - 3)), int(r.integers(0, w - 3))
        sh, sw = int(r.integers(2, h - bh + 1)), int(r.integers(2, w - bw + 1))
        bc = int(r.integers(0, c - 1)) if r.integers(0, 2) else 0
        sc = int(r.integers(1, c - bc + 1)) if bc or r.integers(0, 2) else c
        if r.integers(0, 2):
            y = g.slice(x, [0, bh, bw, bc], [1, sh, sw, sc if r.integers(0, 2) or bc + sc < c else -1] if False else [1, sh, sw, sc])
        else:
            y = g.strided_slice(x, [0, bh, bw, bc], [1, bh + sh, bw + sw, bc + sc])
        out = g.pool(y, "maxpool", min(3, sh, sw), 1, PAD_SAME) if r.integers(0, 2) else g.conv(y, 8, min(3, sh, sw), 1, PAD_SAME, act)
    else:
        # expand a 2D matrix (FC output) to 4D through two EXPAND_DIMS, convolve, squeeze back to 2D and feed another FC
        n_in, n_mid = int(r.choice([8, 16, 30])), int(r.choice([8, 16, 12]))
        x = g.fc(g.input([1, n_in]), n_mid, act)
        y = g.expand_dims(g.expand_dims(x, 1), 1)  # [1, 1, 1, n_mid]
        y = g.conv(y, n_mid, 1, 1, PAD_SAME, act)
        z = g.squeeze(y, [1, 2])
        out = g.fc(z, int(r.choice([4, 10])))
    return g.finish([out], "shape-ops", "exact")


def fam_lstm(seed):
    """fully quantised UNIDIRECTIONAL_SEQUENCE_LSTM (int8 activations and weights, int16 cell state, no peephole / projection / layer normalisation), batch or
    time major, 1-3 batches x 1-4 steps, optionally between other operators.  The compiler unrolls it into fully connected / elementwise operators with
    16-bit table activations, which the executable NPU model does not cover: no output comparison is claimed (klass 'cpu-mix')."""
    r = rng_for("lstm", seed)
    g = G(r, "int8")
    n_batch, n_time = int(r.choice([1, 2, 2, 3])), int(r.choice([1, 2, 3, 4]))
    n_input, n_cell = int(r.choice([4, 8, 12, 16])), int(r.choice([4, 8, 20, 16]))
    time_major = bool(r.integers(0, 3) == 0)
    in_shape = [n_time, n_batch, n_input] if time_major else [n_batch, n_time, n_input]
    out_shape = [n_time, n_batch, n_cell] if time_major else [n_batch, n_time, n_cell]
    x = g.input(in_shape, scale=0.05, zp=0)
    if r.integers(0, 3):
        x = g.unary("relu", x)
    nm = g.name("lstm")

    def wts(tag, shp):
        return g.const("%s_%s" % (nm, tag), shp, "int8", r.integers(-30, 31, shp), [0.01], [0]).name

    iw = [wts("i2%s" % k_, (n_cell, n_input)) for k_ in "ifco"]
    rw = [wts("r2%s" % k_, (n_cell, n_cell)) for k_ in "ifco"]
    bs = [g.const("%s_b%s" % (nm, k_), (n_cell,), "int32", r.integers(-50, 51, (n_cell,)), [0.0005], [0]).name for k_ in "ifco"]
    hs = g.net.add_t(nm + "_output_state", [n_batch, n_cell], "int8", [0.007], [0])
    hs.is_variable = True
    cs = g.net.add_t(nm + "_cell_state", [n_batch, n_cell], "int16", [2.0 ** -11], [0])
    cs.is_variable = True
    y = g.net.add_t(nm + "_o", out_shape, "int8", [0.007], [0])
    inter = [g.net.add_t("%s_intermediate_%d" % (nm, i_), [], "int16", [2.0 ** -12], [0]).name for i_ in range(4)]
    inter.append(g.net.add_t(nm + "_effective_hidden_scale_intermediate", [], "int8", [2.0 ** -14], [0]).name)
    ins = [x] + iw + rw + [None, None, None] + bs + [None, None] + [hs.name, cs.name] + [None, None, None, None]
    g.net.add_o(BO.UNIDIRECTIONAL_SEQUENCE_LSTM, ins, [y.name], "UnidirectionalSequenceLSTMOptions",
                dict(fused_activation_function=ACT_TANH, cell_clip=0.0, proj_clip=0.0, time_major=time_major), 3)
    g.net.ops[-1].intermediates = inter
    g.kinds.append("lstm")
    out = y.name
    if r.integers(0, 2):
        out = g.unary("relu", out)
    return g.finish([out], "lstm", "cpu-mix", tol=None)


def fam_grouped_conv(seed):
    """CONV_2D whose filter depth is a fraction of the IFM depth (grouped convolution: the compiler splits it into one convolution per group and concatenates),
    per-tensor / per-channel scales, with and without bias, between ordinary operators.  Exact class."""
    r = rng_for("grouped-conv", seed)
    g = G(r, str(r.choice(["int8", "int8", "uint8"])))
    groups = int(r.choice([2, 2, 4, 3]))
    icg, ocg = int(r.choice([2, 4, 8])), int(r.choice([2, 4, 8, 16]))
    h, w = int(r.choice([4, 6, 8])), int(r.choice([4, 6, 8]))
    x = g.input([1, h, w, icg * groups])
    if r.integers(0, 2):
        x = g.conv(x, icg * groups, 1, 1, PAD_SAME, ACT_NONE)
    k = int(r.choice([1, 3]))
    y = g.conv(x, ocg * groups, k, int(r.choice([1, 1, 2])), int(r.choice([PAD_SAME, PAD_VALID])), int(r.choice([ACT_NONE, ACT_RELU])), per_channel=bool(r.integers(0, 2)),
               bias=bool(r.integers(0, 3)), groups=groups)
    g.kinds.append("grouped_conv")
    if r.integers(0, 2):
        y = g.pool(y, "maxpool", min(2, g.T(y).shape[1], g.T(y).shape[2]), 1, PAD_SAME)
    return g.finish([y], "grouped-conv", "exact")


def fam_approx_tail2(seed, tail=None):
    """second list of approximated tails (kept apart from approx-tail so that its seed -> tail assignment stays what the recorded runs used): EXP through an
    8-bit table with a free output quantisation, SQUARED_DIFFERENCE lowered to 32-bit elementwise arithmetic"""
    r = rng_for("approx-tail2", seed)
    tail = tail or ["exp", "sqdiff"][seed % 2]
    g = G(r, "int8" if tail == "exp" or r.integers(0, 3) else "uint8")
    h, w, c = int(r.choice([2, 4, 6, 8])), int(r.choice([2, 4, 6, 8])), int(r.choice([4, 8, 16, 5]))
    x = g.input([1, h, w, c])
    for _ in range(int(r.integers(0, 3))):
        x = _rand_exact_op(g, x)
    X = g.T(x)
    if tail == "exp":
        # inputs around zero with a spread of a few units, output scale chosen so that a good part of the table is not saturated
        y = g.conv(x, int(r.choice([4, 8, 16])), 1, 1, PAD_SAME, int(r.choice([ACT_NONE, ACT_RELU_N1_1, ACT_NONE])), oscale=float(r.choice([0.01, 0.02, 0.03])), ozp=int(r.integers(-40, 90)))
        Y = g.T(y)
        top = float(np.exp((127 - Y.zp[0]) * Y.scale[0]))
        out = g.exp(y, oscale=float(np.float32(top / float(r.choice([200.0, 255.0, 400.0])))), ozp=-128 if r.integers(0, 2) else int(r.integers(-128, -60)))
    else:
        _, hh, ww, cc = X.shape
        a = g.conv(x, cc, 1, 1, PAD_SAME, ACT_NONE, oscale=float(r.choice([0.02, 0.05, 0.1])))
        b = g.conv(x, cc, 1, 1, PAD_SAME, ACT_NONE, oscale=float(r.choice([0.02, 0.05, 0.1]))) if r.integers(0, 3) else g.const_act([1, 1, 1, cc], scale=0.05)
        A, B = g.T(a), g.T(b)
        m = max(A.scale[0], B.scale[0]) * 255.0
        out = g.eltwise("sqdiff", *((a, b) if r.integers(0, 2) else (b, a)), oscale=float(np.float32(m * m / float(r.choice([255.0, 400.0, 1000.0])))), ozp=DT_RANGE[g.dtype][0] if r.integers(0, 2) else None)
    return g.finish([out], "approx-tail2:" + tail, "approx", 1)


FAMILIES = {
    "exact-chain": fam_exact_chain,
    "exact-dag": fam_exact_dag,
    "strided-first": fam_strided_first,
    "approx-tail": fam_approx_tail,
    "stripe-stress": fam_stripe_stress,
    "buffer-stress": fam_buffer_stress,
    "lut-stress": fam_lut_stress,
    "alias-stress": fam_alias_stress,
    "cpu-mix": fam_cpu_mix,
    "shared-weights": fam_shared_weights,
    "tiny": fam_tiny,
    "stripe-resize": fam_stripe_resize,
    "mixed-width": fam_mixed_width,
    "shape-ops": fam_shape_ops,
    "approx-tail2": fam_approx_tail2,
    "grouped-conv": fam_grouped_conv,
    "lstm": fam_lstm,
}


def make(family, seed, **kw):
    if family == "exact-chain-big":
        return fam_exact_chain(seed, big=True)
    return FAMILIES[family](seed, **kw)
