"""Oracle for C08: parse an encoded weight/scale tensor by its recorded ranges and compare with what the request asked for.

A request is described by plain data (dict):
  weights   ndarray HWIO, raw (not zero-point corrected) integer values
  zp        scalar or per-output-channel array
  flip      True for transpose convolution (weights reversed in H and W)
  is_dw     depthwise traversal
  dil       (x, y)
  ifm_bits  8 / 16
  ncores, ifm_ub, ofm_ub (ublock depths)
  obd       OFM block depth of the block config
  offsets   closed list of depth offsets
  biases    list of ints or None (no scale tensor)
  scales    list of (multiplier, shift) per channel or None
The hardware rule for two cores: inside each depth slice, core c processes channels c, c+ncores, ... and an OFM block of depth obd is split
so that core c gets ceil((obd - c) / ncores) channels of it.
"""
import numpy as np

from . import mlwref


def round_up(a, b):
    return (a + b - 1) // b * b


def parse_record(b):
    bias = int.from_bytes(b[0:5], "little", signed=False)
    if bias >= 1 << 39:
        bias -= 1 << 40
    scale = int.from_bytes(b[5:9], "little")
    return bias, scale, b[9] & 0x3F, b[9] >> 6


def expected_keys(req):
    full = req["weights"].shape[-1]
    keys = []
    for d in req["offsets"][:-1]:
        for core in range(min(req["ncores"], full)):
            if (req["obd"] + req["ncores"] - 1 - core) // req["ncores"] != 0:
                keys.append((core, d))
    return keys


def range_extent(r, has_weights):
    return (r.weight_offset + r.weight_bytes) if has_weights else round_up(r.scale_bytes, 16)


def check_structure(req, tens, has_weights, has_scales, v, counters, what):
    """ranges: keys, order, alignment, disjointness, DMA size covers the range, double-buffer sizes bound the slices"""
    keys = [(int(k.core), int(k.depth)) for k in tens.encoded_ranges]
    exp = expected_keys(req)
    if keys != exp:
        v("range-keys-differ-from-assignment", "%s: ranges %s, expected (core, slice) list %s" % (what, keys[:8], exp[:8]))
        return False
    buf_len = len(tens.buffer)
    prev_end = 0
    prev_index = -1
    ok = True
    for k, r in tens.encoded_ranges.items():
        counters["ranges_checked"] = counters.get("ranges_checked", 0) + 1
        if r.offset % 16:
            v("range-not-16-byte-aligned", "%s: range %s starts at %d" % (what, tuple(k), r.offset))
            ok = False
        if has_weights and (r.offset + r.weight_offset) % 16:
            v("weight-section-not-16-byte-aligned", "%s: range %s weight section at %d" % (what, tuple(k), r.offset + r.weight_offset))
            ok = False
        if has_weights and has_scales and r.weight_offset < r.scale_bytes:
            v("weight-section-overlaps-scale-section", "%s: range %s scale bytes %d, weight offset %d" % (what, tuple(k), r.scale_bytes, r.weight_offset))
            ok = False
        if r.offset < prev_end:
            v("ranges-overlap-or-out-of-order", "%s: range %s starts at %d before the end %d of the previous range" % (what, tuple(k), r.offset, prev_end))
            ok = False
        if r.index != prev_index + 1:
            v("range-index-not-in-stream-order", "%s: range %s has index %d after %d" % (what, tuple(k), r.index, prev_index))
            ok = False
        prev_index = r.index
        ext = range_extent(r, has_weights)
        if round_up(r.total_bytes, 16) < ext:
            v("transfer-size-does-not-cover-range", "%s: range %s spans %d bytes but the size used for transfers round_up(total_bytes,16) is %d" % (what, tuple(k), ext, round_up(r.total_bytes, 16)))
            ok = False
        prev_end = r.offset + max(ext, round_up(r.total_bytes, 16))
        if prev_end > buf_len:
            v("range-exceeds-buffer", "%s: range %s ends at %d, buffer has %d bytes" % (what, tuple(k), prev_end, buf_len))
            ok = False
    # double-buffer sizes: slice idx occupies buffer idx % 2; what is copied per slice is the sum over cores of round_up(total_bytes, 16)
    per_slice = {}
    for k, r in tens.encoded_ranges.items():
        per_slice[int(k.depth)] = per_slice.get(int(k.depth), 0) + round_up(r.total_bytes, 16)
    for idx, d in enumerate(req["offsets"][:-1]):
        counters["slices_checked"] = counters.get("slices_checked", 0) + 1
        if tens.double_buffer_sizes[idx % 2] < per_slice.get(d, 0):
            v("double-buffer-size-smaller-than-slice", "%s: slice %d (depth %d) needs %d bytes, double_buffer_sizes[%d] = %d" % (what, idx, d, per_slice[d], idx % 2, tens.double_buffer_sizes[idx % 2]))
            ok = False
    if len(req["offsets"]) > 2:
        counters["multi_slice_tensors"] = counters.get("multi_slice_tensors", 0) + 1
    return ok


def channels_of(req, core, d):
    end = req["offsets"][req["offsets"].index(d) + 1]
    return list(range(d + core, end, req["ncores"]))


def check_scales(req, tens, v, counters, what):
    buf = bytes(tens.buffer)
    for k, r in tens.encoded_ranges.items():
        core, d = int(k.core), int(k.depth)
        chans = channels_of(req, core, d)
        if r.scale_bytes != 10 * len(chans):
            v("scale-record-count-differs-from-channels", "%s: range %s has %d scale bytes for %d assigned channels %s.." % (what, (core, d), r.scale_bytes, len(chans), chans[:4]))
            continue
        for j, ch in enumerate(chans):
            bias, m, s, top = parse_record(buf[r.offset + 10 * j : r.offset + 10 * j + 10])
            counters["scale_records_checked"] = counters.get("scale_records_checked", 0) + 1
            eb = int(req["biases"][ch])
            em, es = req["scales"][ch]
            if top:
                v("scale-record-reserved-bits-set", "%s: channel %d record top bits %d" % (what, ch, top))
            if bias != eb:
                v("scale-record-bias-differs", "%s: channel %d (core %d slice %d) bias %d, expected %d" % (what, ch, core, d, bias, eb))
                break
            if (m, s) != (em, es):
                v("scale-record-multiplier-differs", "%s: channel %d (core %d slice %d) (multiplier, shift) (%d, %d), expected (%d, %d)" % (what, ch, core, d, m, s, em, es))
                break
        pad = buf[r.offset + r.scale_bytes : r.offset + round_up(r.scale_bytes, 16)]
        if any(pad):
            v("scale-padding-not-zero", "%s: range %s padding after scales %s" % (what, (core, d), pad.hex()))


def corrected_weights(req):
    w = np.asarray(req["weights"]).astype(np.int64)
    zp = np.asarray(req["zp"]).astype(np.int64)
    w = w - zp  # scalar or per-output-channel (last axis)
    if req.get("flip"):
        w = w[::-1, ::-1, :, :]
    return np.transpose(w, (3, 0, 1, 2))  # OHWI


def check_weights(req, tens, is_pk, v, counters, what, stats=None):
    buf = bytes(tens.buffer)
    ohwi = corrected_weights(req)
    dec_h, dec_w = 8 // req["dil"][1], 8 // req["dil"][0]
    for k, r in tens.encoded_ranges.items():
        core, d = int(k.core), int(k.depth)
        chans = channels_of(req, core, d)
        cbd = (req["obd"] + req["ncores"] - 1 - core) // req["ncores"]
        sect = buf[r.offset + r.weight_offset : r.offset + r.weight_offset + r.weight_bytes]
        if not chans and r.weight_bytes == 0:
            counters["empty_core_ranges"] = counters.get("empty_core_ranges", 0) + 1  # a core with no channel in this slice: nothing to decode
            continue
        counters["weight_sections_decoded"] = counters.get("weight_sections_decoded", 0) + 1
        if len(sect) != r.weight_bytes or r.weight_bytes % 16:
            v("weight-section-size", "%s: range %s weight bytes %d (have %d)" % (what, (core, d), r.weight_bytes, len(sect)))
            continue
        try:
            dec = mlwref.decode(sect, stats)
        except mlwref.MlwError as e:
            v("weight-section-undecodable", "%s: range %s: %s" % (what, (core, d), e))
            continue
        exp = mlwref.reorder_ref(ohwi[chans], req["ifm_ub"], req["ofm_ub"], cbd, req["is_dw"], is_pk, req["ifm_bits"], dec_h, dec_w)
        counters["weights_compared"] = counters.get("weights_compared", 0) + len(exp)
        n = len(exp)
        if len(dec) < n or list(dec[:n]) != list(exp) or any(dec[n:]):
            i = next((i for i in range(min(n, len(dec))) if dec[i] != exp[i]), min(n, len(dec)))
            v("weight-section-decodes-to-other-weights", "%s: range (core %d, slice %d; %d channels, block depth %d, %s, %d-bit IFM): %d weights expected, %d decoded, first difference at %d (%s vs %s)" % (
                what, core, d, len(chans), cbd, "part-kernel-first" if is_pk else "depth-first", req["ifm_bits"], n, len(dec), i, exp[i] if i < n else None, dec[i] if i < len(dec) else None))
