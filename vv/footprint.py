"""Exact byte footprints of decoded operations as merged interval arrays per region.

Regions: 0,1,2,... external (as named by the REGION registers), "shram" for the shared buffer.
Only bytes of elements actually consumed / produced are counted (brick padding is not), so a reported overrun is never padding-only.
"""
import numpy as np

from . import decode, isa, shram


def merge(iv):
    """iv: (n,2) int64 array of [start,end) -> merged, sorted (m,2)"""
    if len(iv) == 0:
        return np.zeros((0, 2), dtype=np.int64)
    iv = iv[iv[:, 1] > iv[:, 0]]
    if len(iv) == 0:
        return np.zeros((0, 2), dtype=np.int64)
    iv = iv[np.argsort(iv[:, 0], kind="stable")]
    ends = np.maximum.accumulate(iv[:, 1])
    brk = np.ones(len(iv), dtype=bool)
    brk[1:] = iv[1:, 0] > ends[:-1]
    idx = np.nonzero(brk)[0]
    starts = iv[idx, 0]
    stops = ends[np.r_[idx[1:] - 1, len(iv) - 1]]
    return np.stack([starts, stops], axis=1)


def intersects(a, b):
    """do two merged interval arrays intersect? returns first overlapping (start,end) or None"""
    if len(a) == 0 or len(b) == 0:
        return None
    i = np.searchsorted(b[:, 1], a[:, 0], side="right")  # first b whose end > a.start
    ok = i < len(b)
    if not ok.any():
        return None
    bi = np.minimum(i, len(b) - 1)
    hit = ok & (b[bi, 0] < a[:, 1])
    if hit.any():
        k = int(np.nonzero(hit)[0][0])
        return (int(max(a[k, 0], b[bi[k], 0])), int(min(a[k, 1], b[bi[k], 1])))
    return None


def total_bytes(iv):
    return int((iv[:, 1] - iv[:, 0]).sum()) if len(iv) else 0


def fm_intervals(fm, y0, y1, x0, x1, c0, c1, rows=None, cols=None):
    """byte intervals of elements (y in [y0,y1), x in [x0,x1), c in [c0,c1)) of a decoded feature map view.
    rows / cols: optional explicit index arrays (consumed rows/cols) overriding the ranges."""
    ys = np.asarray(rows if rows is not None else np.arange(y0, y1), dtype=np.int64)
    xs = np.asarray(cols if cols is not None else np.arange(x0, x1), dtype=np.int64)
    if len(ys) == 0 or len(xs) == 0 or c1 <= c0:
        return np.zeros((0, 2), dtype=np.int64)
    e = fm.bits // 8
    Y, X = np.meshgrid(ys, xs, indexing="ij")
    Y, X = Y.ravel(), X.ravel()
    right = X >= fm.width0
    lower = np.where(right, Y >= fm.height1, Y >= fm.height0)
    tile = right.astype(np.int64) + 2 * lower.astype(np.int64)
    yy = Y - np.where(lower, np.where(right, fm.height1, fm.height0), 0)
    xx = X - np.where(right, fm.width0, 0)
    bases = np.asarray(fm.bases, dtype=np.int64)[tile]
    out = []
    if fm.nhcwb16:
        b0, b1 = c0 // 16, (c1 - 1) // 16
        for b in range(b0, b1 + 1):
            lo = max(c0, b * 16) - b * 16
            hi = min(c1, b * 16 + 16) - b * 16
            start = bases + yy * fm.stride_y + xx * 16 * e + b * fm.stride_c + lo * e
            out.append(np.stack([start, start + (hi - lo) * e], axis=1))
    else:
        start = bases + yy * fm.stride_y + xx * fm.stride_x + c0 * e
        out.append(np.stack([start, start + (c1 - c0) * e], axis=1))
    return merge(np.concatenate(out))


def consumed_axis(o_lo, o_hi, stride, k, dil, pad_before, extent, up, transpose=False, krange=None):
    """indices along one axis of the (stored) IFM consumed by OFM positions [o_lo, o_hi): upscaled coordinate u = o*stride - pad + j*dil.
    krange = (first, last+1) undilated kernel element indices (sub-kernel)."""
    o = np.arange(o_lo, o_hi, dtype=np.int64)[:, None]
    j = np.arange(0, k, dil, dtype=np.int64)
    if krange is not None:
        j = j[krange[0]:krange[1]]
    j = j[None, :]
    u = (o * stride - pad_before + j).ravel()
    u = u[(u >= 0) & (u < extent * up)]
    if transpose:
        u = u[u % 2 == 0]  # zero insertion: odd upscaled positions are zeros, nothing is read
    return np.unique(u // up)


class OpFootprint:
    """reads / writes of one decoded operation: dict region -> merged intervals"""

    def __init__(self):
        self.reads = {}
        self.writes = {}
        self.parts = {}  # name -> (region, intervals) for diagnostics

    def add(self, kind, region, iv, name):
        d = self.reads if kind == "r" else self.writes
        if len(iv) == 0:
            return
        d[region] = merge(np.concatenate([d[region], iv])) if region in d else iv
        self.parts[name] = (region, iv)


def lut_range(acc, F):
    a = isa.ACCEL[acc]
    total, end_with_lut = shram.limits(acc, True)
    base = end_with_lut * isa.SHRAM_BANK_SIZE if a["banks"] <= 16 else total * isa.SHRAM_BANK_SIZE
    if F.ifm.bits == 8 and F.ofm.bits <= 8 or (F.ifm.bits == 8):
        return base + 256 * F.lut_index, 256
    return base, 2048


def op_footprint(F, acc, ofm_box=None, ifm_depth_range=None, subkernel=None):
    """F: decode.Fields. ofm_box = (y0,y1,x0,x1,c0,c1) restricts to one OFM block (block jobs); default whole op.
    subkernel = (ky0, ky1, kx0, kx1): undilated kernel element ranges of one sub-kernel pass."""
    fp = OpFootprint()
    oh, ow, od = F.ofm.height, F.ofm.width, F.ofm.depth
    y0, y1, x0, x1, c0, c1 = ofm_box if ofm_box is not None else (0, oh, 0, ow, 0, od)
    y1, x1, c1 = min(y1, oh), min(x1, ow), min(c1, od)
    fp.add("w", F.ofm.region, fm_intervals(F.ofm, y0, y1, x0, x1, c0, c1), "ofm")
    if F.kind == "elementwise":
        fp.add("r", F.ifm.region, fm_intervals(F.ifm, y0, y1, x0, x1, c0, c1), "ifm")
        if F.has_ifm2 and not F.scalar:
            i2 = F.ifm2
            ry = (0, 1) if F.bcast_h else (y0, y1)
            rx = (0, 1) if F.bcast_w else (x0, x1)
            rc = (0, 1) if F.bcast_c else (c0, c1)
            fp.add("r", i2.region, fm_intervals(i2, ry[0], ry[1], rx[0], rx[1], rc[0], rc[1]), "ifm2")
    else:
        pt, pl, pb, pr = F.pad
        rows = consumed_axis(y0, y1, F.sy, F.kh, F.dy, pt, F.ifm.height, F.up, F.upscale == 2, None if subkernel is None else subkernel[0:2])
        cols = consumed_axis(x0, x1, F.sx, F.kw, F.dx, pl, F.ifm.width, F.up, F.upscale == 2, None if subkernel is None else subkernel[2:4])
        if F.kind == "conv" or (F.kind == "pool" and F.sub == "REDUCE_SUM"):
            ic0, ic1 = ifm_depth_range if ifm_depth_range is not None else (0, F.ifm.depth)
        else:
            ic0, ic1 = c0, c1
        fp.add("r", F.ifm.region, fm_intervals(F.ifm, 0, 0, 0, 0, ic0, min(ic1, F.ifm.depth), rows=rows, cols=cols), "ifm")
        if F.kind in ("conv", "depthwise"):
            for core in range(F.ncores):
                wb, wl = F.weights[core]
                sb, sl = F.scales[core]
                if wl:
                    fp.add("r", F.weight_region, np.array([[wb, wb + wl]], dtype=np.int64), "weights%d" % core)
                if sl:
                    fp.add("r", F.scale_region, np.array([[sb, sb + sl]], dtype=np.int64), "scales%d" % core)
    # SHRAM: table read, buffer writes
    if F.lut_index is not None:
        b, n = lut_range(acc, F)
        fp.add("r", "shram", np.array([[b, b + n]], dtype=np.int64), "lut")
    total, end = shram.limits(acc, F.lut_index is not None)
    bs = isa.SHRAM_BANK_SIZE
    if F.kind == "elementwise":
        fp.add("w", "shram", np.array([[isa.SHRAM_OUTPUT_BANKS * bs, max(F.ib_end, isa.SHRAM_OUTPUT_BANKS) * bs]], dtype=np.int64), "shram_ib")
    else:
        fp.add("w", "shram", np.array([[isa.SHRAM_OUTPUT_BANKS * bs, max(F.ib_end, isa.SHRAM_OUTPUT_BANKS) * bs], [F.ab_start * bs, max(end, F.ab_start) * bs]], dtype=np.int64), "shram_ib_ab")
    return fp


def dma_footprint(d):
    fp = OpFootprint()
    sr = "shram" if d["src_internal"] else d["src_region"]
    dr = "shram" if d["dst_internal"] else d["dst_region"]
    fp.add("r", sr, np.array([[d["src"], d["src"] + d["length"]]], dtype=np.int64), "dma_src")
    fp.add("w", dr, np.array([[d["dst"], d["dst"] + d["length"]]], dtype=np.int64), "dma_dst")
    return fp


def conflict(a, b):
    """RAW / WAR / WAW between two OpFootprints: returns (kind, region, (start,end)) or None.  a is the earlier operation."""
    for kind, xa, xb in (("RAW", a.writes, b.reads), ("WAR", a.reads, b.writes), ("WAW", a.writes, b.writes)):
        for region, iv in xa.items():
            if region in xb:
                hit = intersects(iv, xb[region])
                if hit:
                    return kind, region, hit
    return None


def block_jobs(F, acc, first=None, last=None):
    """Block jobs in hardware order: OFM blocks Z -> X -> Y; within a block, IFM-depth blocks (convolutions, reduce-sum) and, inside each, the sub-kernel
    passes (kernel decomposed into at most 8x8 dilated elements; the accumulators persist, each pass loads its own IFM block).
    Returns (list of (ofm_box, ifm_depth_range or None, subkernel or None, writes_ofm), total).  first/last: only the first / last n jobs."""
    bh, bw, bd = F.blk
    oh, ow, od = F.ofm.height, F.ofm.width, F.ofm.depth
    nz, nx, ny = -(-od // bd), -(-ow // bw), -(-oh // bh)
    if F.kind == "conv" or (F.kind == "pool" and F.sub == "REDUCE_SUM"):
        a = isa.ACCEL[acc]
        if F.ifm.bits == 16:
            ibd = shram.rup(min(F.ifm.depth, 16), 4)
        elif F.ifm.bits == 32:
            # an IFM block holds 256 bits per position: 8 channels of 32 bits (REDUCE_SUM of the softmax lowering)
            ibd = 8
        else:
            ibd = shram.rup(min(F.ifm.depth, 16 if F.part_kernel else 32), a["ifm_ublock"][2])
        ndep = -(-F.ifm.depth // ibd)
    else:
        ibd, ndep = None, 1
    subs = [None]
    if F.kind != "elementwise":
        ukh, ukw = (F.kh - 1) // F.dy + 1, (F.kw - 1) // F.dx + 1  # undilated kernel
        dech, decw = max(1, 8 // F.dy), max(1, 8 // F.dx)
        if ukh > dech or ukw > decw:
            subs = [(ky, min(ky + dech, ukh), kx, min(kx + decw, ukw)) for ky in range(0, ukh, dech) for kx in range(0, ukw, decw)]
    nsub = ndep * len(subs)
    total = nz * nx * ny * nsub

    def job(idx):
        blk, sub = divmod(idx, nsub)
        dep, sk = divmod(sub, len(subs))
        z = blk % nz
        x = (blk // nz) % nx
        y = blk // (nz * nx)
        box = (y * bh, y * bh + bh, x * bw, x * bw + bw, z * bd, z * bd + bd)
        dr = (dep * ibd, dep * ibd + ibd) if ibd is not None else None
        return box, dr, subs[sk], sub == nsub - 1

    if first is not None:
        return [job(i) for i in range(min(first, total))], total
    if last is not None:
        return [job(i) for i in range(max(0, total - last), total)], total
    return [job(i) for i in range(total)], total
