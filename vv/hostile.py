"""'hostile' network family: structurally valid TFLite models that are odd (C13)."""
import numpy as np

from .netgen import ACT_NONE, DT_RANGE, G, PAD_SAME, PAD_VALID, rng_for
from .tflw import BO

UNARY = [("ABS", "AbsOptions"), ("NEG", "NegOptions"), ("EXP", "ExpOptions"), ("LOG", None), ("SQRT", None), ("RSQRT", None), ("SIN", None),
         ("COS", "CosOptions"), ("FLOOR", None), ("CEIL", None), ("ROUND", None), ("SQUARE", "SquareOptions"), ("ELU", None), ("GELU", "GeluOptions"),
         ("HARD_SWISH", "HardSwishOptions"), ("RELU", None), ("RELU6", None), ("RELU_N1_TO_1", None), ("RELU_0_TO_1", None), ("TANH", None),
         ("LOGISTIC", None), ("L2_NORMALIZATION", "L2NormOptions"), ("LOG_SOFTMAX", "LogSoftmaxOptions"), ("ZEROS_LIKE", "ZerosLikeOptions"),
         ("SIGN", None), ("QUANTIZE", "QuantizeOptions"), ("DEQUANTIZE", "DequantizeOptions"), ("LOGICAL_NOT", "LogicalNotOptions"),
         ("SOFTMAX", "SoftmaxOptions"), ("LEAKY_RELU", "LeakyReluOptions"), ("CAST", "CastOptions"), ("SHAPE", "ShapeOptions"), ("RANK", "RankOptions")]
BINARY = [("ADD", "AddOptions"), ("SUB", "SubOptions"), ("MUL", "MulOptions"), ("DIV", "DivOptions"), ("MAXIMUM", "MaximumMinimumOptions"),
          ("MINIMUM", "MaximumMinimumOptions"), ("POW", "PowOptions"), ("FLOOR_DIV", "FloorDivOptions"), ("FLOOR_MOD", "FloorModOptions"),
          ("SQUARED_DIFFERENCE", "SquaredDifferenceOptions"), ("LESS", "LessOptions"), ("GREATER", "GreaterOptions"), ("EQUAL", "EqualOptions"),
          ("NOT_EQUAL", "NotEqualOptions"), ("LOGICAL_AND", "LogicalAndOptions"), ("LOGICAL_OR", "LogicalOrOptions"), ("PRELU", None),
          ("BATCH_MATMUL", "BatchMatMulOptions"), ("ATAN2", None), ("BITWISE_XOR", None), ("RIGHT_SHIFT", None)]
DTYPES = ["int8", "uint8", "int16", "int32", "int64", "float32", "float16", "bool", "uint32", "float64", "uint16"]


def rshape(r, rank=None):
    rank = int(r.integers(0, 6)) if rank is None else rank
    return [int(r.choice([1, 1, 2, 3, 5, 7, 8, 13, 16, 31])) for _ in range(rank)]


def _qt(g, name, shape, dtype, r, qmode=None):
    """tensor with a quantisation mode: none / per-tensor / per-axis / mismatched / empty-scale"""
    qmode = qmode if qmode is not None else int(r.integers(0, 8))
    if dtype not in ("int8", "uint8", "int16", "int32"):
        qmode = 0 if qmode < 6 else qmode
    if qmode in (0,):
        return g.net.add_t(name, shape, dtype)
    if qmode in (1, 2, 3, 4):
        return g.net.add_t(name, shape, dtype, [g.rscale()], [g.rzp(dtype) if dtype in DT_RANGE else 0])
    if qmode == 5 and len(shape) >= 1:
        n = shape[-1]
        return g.net.add_t(name, shape, dtype, [g.rscale() for _ in range(n)], [0] * n, qdim=len(shape) - 1)
    if qmode == 6:
        return g.net.add_t(name, shape, dtype, [g.rscale(), g.rscale(), g.rscale()], [0])
    return g.net.add_t(name, shape, dtype, [], [])


N_KINDS = 21


def fam_hostile(seed, kind=None, pick=None):
    """kind: sub-generator (random when None); pick (kinds 0 / 1 only): index of the builtin operator, which then gets float32 operands - a CPU-resident
    instance of that operator whatever else is drawn (used to walk every operator / options table deterministically)"""
    r = rng_for("hostile", seed)
    k0 = int(r.integers(0, N_KINDS))
    kind = k0 if kind is None else int(kind)
    g = G(r, "int8")
    sub = "?"
    if kind == 0:  # unary builtin on random rank / dtype
        sub = "unary"
        name, opt = UNARY[int(r.integers(0, len(UNARY)))]
        dt = str(r.choice(DTYPES))
        if pick is not None:
            name, opt = UNARY[int(pick) % len(UNARY)]
            dt = "float32"
        shp = rshape(r)
        a = _qt(g, "in", shp, dt, r)
        g.net.inputs.append("in")
        odt = dt
        oshape = shp
        if name == "CAST":
            odt = str(r.choice(DTYPES))
        if name == "DEQUANTIZE":
            odt = "float32"
        if name == "SHAPE":
            odt, oshape = "int32", [len(shp)]
        if name == "RANK":
            odt, oshape = "int32", []
        o = _qt(g, "out", oshape, odt, r)
        opts = {}
        if name == "SOFTMAX":
            opts = dict(beta=1.0)
        if name == "LEAKY_RELU":
            opts = dict(alpha=0.1)
        g.net.add_o(getattr(BO, name), ["in"], ["out"], opt, opts, int(r.choice([1, 2])))
        outs = ["out"]
    elif kind == 1:  # binary builtin, broadcast, random dtype
        sub = "binary"
        name, opt = BINARY[int(r.integers(0, len(BINARY)))]
        dt = str(r.choice(DTYPES))
        if pick is not None:
            name, opt = BINARY[int(pick) % len(BINARY)]
            dt = "float32"
        shp = rshape(r)
        shp2 = [d if r.integers(0, 3) else 1 for d in shp] if r.integers(0, 2) else list(shp)
        if r.integers(0, 4) == 0 and shp2:
            shp2 = shp2[1:]
        _qt(g, "a", shp, dt, r)
        const_b = r.integers(0, 3) == 0
        if const_b:
            lo, hi = DT_RANGE.get(dt, (0, 2))
            data = r.integers(lo, hi, shp2) if dt != "bool" and not dt.startswith("float") else r.random(shp2) > 0.5 if dt == "bool" else r.random(shp2)
            t = _qt(g, "b", shp2, dt, r)
            t.data = np.ascontiguousarray(np.asarray(data, dtype=t.dtype).reshape(shp2))
            g.net.inputs += ["a"]
        else:
            _qt(g, "b", shp2, dt, r)
            g.net.inputs += ["a", "b"]
        odt = "bool" if name in ("LESS", "GREATER", "EQUAL", "NOT_EQUAL") else dt
        _qt(g, "out", shp, odt, r)
        opts = dict(fused_activation_function=int(r.choice([0, 1, 2, 3, 4, 5]))) if name in ("ADD", "SUB", "MUL", "DIV") else {}
        g.net.add_o(getattr(BO, name), ["a", "b"], ["out"], opt, opts, 1)
        outs = ["out"]
    elif kind == 2:  # batch > 1 supported ops
        sub = "batch"
        n = int(r.choice([2, 3, 4]))
        h, w, c = int(r.choice([1, 4, 7])), int(r.choice([1, 4, 5])), int(r.choice([1, 3, 8, 16]))
        x = g.input([n, h, w, c])
        t = int(r.integers(0, 5))
        if t == 0:
            X = g.T(x)
            oc = 8
            W = g.const("w", (oc, 1, 1, c), "int8", g.rweights((oc, 1, 1, c)), [0.01] * oc, [0] * oc)
            B = g.const("b", (oc,), "int32", r.integers(-100, 100, (oc,)), [float(np.float32(X.scale[0] * 0.01))] * oc, [0] * oc)
            o = g.act("o", (n, h, w, oc))
            g.net.add_o(BO.CONV_2D, [x, "w", "b"], ["o"], "Conv2DOptions",
                        dict(padding=PAD_SAME, stride_w=1, stride_h=1, dilation_w_factor=1, dilation_h_factor=1, fused_activation_function=0), 3)
            outs = ["o"]
        elif t == 1:
            o = g.act("o", (n, h, w, c))
            g.net.add_o(BO.MAX_POOL_2D, [x], ["o"], "Pool2DOptions", dict(padding=PAD_SAME, stride_w=1, stride_h=1, filter_width=1, filter_height=1, fused_activation_function=0), 2)
            outs = ["o"]
        elif t == 2:
            outs = [g.eltwise("add", x, x)]
        elif t == 3:
            y = g.reshape(x, [n, h * w * c])
            outs = [g.fc(y, 5)]
        else:
            y = g.reshape(x, [n * h * w, c])
            outs = [g.softmax(y)]
    elif kind == 3:  # no operators; output is an input / a constant
        sub = "no-ops"
        x = g.input(rshape(r, int(r.integers(1, 5))))
        outs = [x]
        if r.integers(0, 2):
            k = g.const_act([2, 2])
            outs.append(k)
    elif kind == 4:  # huge / tiny kernels & strides
        sub = "kernel-extremes"
        h, w = int(r.choice([1, 2, 9, 70, 130])), int(r.choice([1, 3, 9, 70]))
        c = int(r.choice([1, 2, 8]))
        x = g.input([1, h, w, c])
        kh = int(r.choice([1, h, min(h, 65), min(h, 64), min(h, 9)]))
        kw = int(r.choice([1, w, min(w, 65), min(w, 8)]))
        s = int(r.choice([1, 2, 3, 4, 7]))
        t = r.integers(0, 3)
        if t == 0:
            outs = [g.conv(x, int(r.choice([1, 8])), kh, min(s, max(1, h)), PAD_SAME if r.integers(0, 2) else PAD_VALID, 0, kw=kw)]
        elif t == 1:
            k = min(kh, kw)
            outs = [g.dwconv(x, k, min(s, 3), PAD_SAME)]
        else:
            outs = [g.pool(x, str(r.choice(["maxpool", "avgpool"])), kh, s, PAD_SAME if r.integers(0, 2) else PAD_VALID, kw=kw)]
    elif kind == 5:  # odd quantisation on supported ops
        sub = "odd-quant"
        shp = [1, int(r.choice([1, 4, 8])), int(r.choice([1, 4, 8])), int(r.choice([3, 8, 16]))]
        dt = str(r.choice(["int8", "uint8", "int16", "int32"]))
        _qt(g, "in", shp, dt, r)
        g.net.inputs.append("in")
        _qt(g, "out", shp, dt, r)
        t = r.integers(0, 3)
        if t == 0:
            g.net.add_o(BO.RELU, ["in"], ["out"], None, None, 1)
        elif t == 1:
            g.net.add_o(BO.ADD, ["in", "in"], ["out"], "AddOptions", dict(fused_activation_function=0), 1)
        else:
            g.net.add_o(BO.MAX_POOL_2D, ["in"], ["out"], "Pool2DOptions", dict(padding=0, stride_w=1, stride_h=1, filter_width=2, filter_height=2, fused_activation_function=0), 1)
        outs = ["out"]
    elif kind == 6:  # zero-length buffers / zero-sized dims
        sub = "empty"
        c = int(r.choice([4, 8]))
        x = g.input([1, 4, 4, c])
        t = r.integers(0, 3)
        if t == 0:
            # conv with empty bias buffer (bias tensor declared but no data)
            g.const("w", (8, 1, 1, c), "int8", g.rweights((8, 1, 1, c)), [0.01], [0])
            g.net.add_t("b", (8,), "int32", [0.001], [0])
            g.act("o", (1, 4, 4, 8))
            g.net.add_o(BO.CONV_2D, [x, "w", "b"], ["o"], "Conv2DOptions",
                        dict(padding=0, stride_w=1, stride_h=1, dilation_w_factor=1, dilation_h_factor=1, fused_activation_function=0), 3)
            outs = ["o"]
        elif t == 1:
            # tensor with a zero dim
            g.net.add_t("z", (1, 0, 4, c), "int8", [0.1], [0])
            g.net.inputs.append("z")
            g.net.add_t("zo", (1, 0, 4, c), "int8", [0.1], [0])
            g.net.add_o(BO.RELU, ["z"], ["zo"], None, None, 1)
            outs = [g.unary("relu", x), "zo"]
        else:
            # optional-input FC with -1 bias
            y = g.reshape(x, [1, 16 * c])
            outs = [g.fc(y, 6, bias=False)]
    elif kind == 7:  # reshape / transpose / squeeze / expand with ranks up to 5
        sub = "rank-shuffle"
        shp = rshape(r, int(r.integers(1, 6)))
        shp = [max(1, d) for d in shp]
        x = g.input(shp)
        n = int(np.prod(shp))
        t = r.integers(0, 4)
        if t == 0:
            outs = [g.reshape(x, [n])]
        elif t == 1 and len(shp) >= 2:
            perm = list(r.permutation(len(shp)))
            outs = [g.transpose(x, [int(p) for p in perm])]
        elif t == 2:
            outs = [g.reshape(x, [1, 1, 1, 1, n])]
        else:
            y = g.reshape(x, [1, n])
            outs = [g.unary("relu", y)]
    elif kind == 8:  # int16 / int32 activations through supported ops
        sub = "wide-types"
        dt = str(r.choice(["int16", "int32"]))
        g.dtype = dt
        shp = [1, int(r.choice([1, 4, 9])), int(r.choice([1, 4])), int(r.choice([1, 8, 24]))]
        x = g.input(shp)
        t = r.integers(0, 5)
        if dt == "int16" and t == 0:
            outs = [g.conv(x, 8, int(r.choice([1, 3])) if min(shp[1:3]) >= 3 else 1, 1, PAD_SAME, bias64=bool(r.integers(0, 2)))]
        elif dt == "int16" and t == 1:
            outs = [g.unary(str(r.choice(["logistic", "tanh"])), x)]
        elif t == 2:
            y = g.input(shp)
            outs = [g.eltwise(str(r.choice(["add", "sub", "mul"])), x, y)]
        elif t == 3 and dt == "int16":
            outs = [g.pool(x, "maxpool", 1, 1, PAD_VALID)]
        else:
            outs = [g.eltwise("add", x, g.const_act(shp, dt))]
    elif kind == 9:  # multi-op nets from the regular families under hostile configs -> delegated by the check (placeholder: concat/split edge cases)
        sub = "concat-split-edges"
        c = int(r.choice([1, 2, 3, 16]))
        x = g.input([1, int(r.choice([1, 4])), int(r.choice([1, 4])), c])
        axis = int(r.choice([0, 1, 2, 3, -1]))
        ys = [x, x] if r.integers(0, 2) else [x, g.unary("relu", x)]
        try:
            outs = [g.concat(ys, axis if axis >= 0 else 3)]
            if axis == -1:
                g.net.ops[-1].opts["axis"] = -1
        except Exception:
            outs = [x]
    elif kind == 10:  # mean / reduce variants
        sub = "reduce"
        shp = [1, int(r.choice([1, 4, 7, 16])), int(r.choice([1, 4, 7])), int(r.choice([1, 8, 17]))]
        x = g.input(shp)
        axes = [(1, 2), (1,), (2,), (3,), (0,), (1, 2, 3)][int(r.integers(0, 6))]
        if r.integers(0, 4) == 0:
            # ARG_MAX / ARG_MIN over the channels of a quantised map (ARG_MAX over the depth is accelerated)
            odt = str(r.choice(["int32", "int64"]))
            g.const("ax", (), "int32", int(r.choice([3, 3, -1, 1])))
            g.net.add_t("o", shp[:3], odt)
            g.net.add_o(BO.ARG_MAX if r.integers(0, 3) else BO.ARG_MIN, [x, "ax"], ["o"], "ArgMaxOptions" if g.net.ops == [] and False else None, None, 2)
            g.net.ops[-1].opt_name = "ArgMaxOptions" if g.net.ops[-1].code == BO.ARG_MAX else "ArgMinOptions"
            g.net.ops[-1].opts = dict(output_type=4 if odt == "int64" else 2)
            outs = ["o"]
        else:
            outs = [g.mean(x, axes, bool(r.integers(0, 2)), oscale=g.rscale() if r.integers(0, 2) else None)]
    elif kind == 11:  # resize variants incl. unsupported factors
        sub = "resize"
        h, w = int(r.choice([1, 2, 3, 5])), int(r.choice([1, 2, 3, 5]))
        x = g.input([1, h, w, int(r.choice([1, 8]))])
        oh, ow = int(r.choice([1, h, 2 * h, 3 * h, 2 * h - 1, 8 * h, 7])), int(r.choice([1, w, 2 * w, 4 * w, 2 * w - 1, 5]))
        if r.integers(0, 5) == 0:
            # tensors of rank 2 / 3 (a resize needs [batch, height, width, channels])
            rk = int(r.choice([2, 3]))
            g.net.add_t("in2", [h, w] if rk == 2 else [h, w, 4], "int8", [0.05], [0])
            g.net.inputs.append("in2")
            g.const("sz", (2,), "int32", [2 * h, 2 * w])
            g.net.add_t("o", [2 * h, 2 * w] if rk == 2 else [2 * h, 2 * w, 4], "int8", [0.05], [0])
            bil = bool(r.integers(0, 2))
            g.net.add_o(BO.RESIZE_BILINEAR if bil else BO.RESIZE_NEAREST_NEIGHBOR, ["in2", "sz"], ["o"], "ResizeBilinearOptions" if bil else "ResizeNearestNeighborOptions",
                        dict(align_corners=bool(r.integers(0, 2)), half_pixel_centers=False), 3)
            outs = ["o"]
        else:
            outs = [g.resize(x, str(r.choice(["resize_bilinear", "resize_nearest"])), oh, ow, bool(r.integers(0, 2)), bool(r.integers(0, 2)))]
    elif kind == 12:  # pad / slice / strided-slice variants
        sub = "pad-slice"
        h, w, c = int(r.choice([2, 4, 8])), int(r.choice([2, 4, 8])), int(r.choice([2, 8, 16]))
        x = g.input([1, h, w, c])
        t = r.integers(0, 4)
        if t == 0:
            outs = [g.pad(x, [[0, 0], [int(r.integers(0, 3)), int(r.integers(0, 3))], [int(r.integers(0, 3)), int(r.integers(0, 3))], [int(r.integers(0, 2)), int(r.integers(0, 2))]])]
        elif t == 1:
            outs = [g.strided_slice(x, [0, 0, 0, 0], [1, h, w, c], [1, int(r.choice([1, 2])), int(r.choice([1, 2])), 1])]
        elif t == 2:
            outs = [g.slice(x, [0, int(r.integers(0, h)), 0, 0], [1, 1, w, c])]
        else:
            outs = [g.strided_slice(x, [0, 1, 0, 0], [1, h, w, c // 2])]
    elif kind == 13 and r.integers(0, 3) == 0:  # a quantisation table holding only one of the two optional vectors (scale without zero point, or the reverse)
        sub = "partial-quant"
        dt = str(r.choice(["int8", "uint8", "int16"]))
        shp = [1, int(r.choice([2, 4])), int(r.choice([2, 4])), int(r.choice([4, 8]))]
        which = str(r.choice(["zp", "zp", "scale"]))
        t = int(r.integers(0, 4))
        a = g.net.add_t("a", shp, dt, [0.05], [3 if dt != "int16" else 0])
        z = g.net.add_t("z", shp, dt, [0.25], [1 if dt != "int16" else 0])
        z.omit = which
        g.net.add_t("o", shp, dt, [0.1], [0])
        g.net.inputs += ["a", "z"]
        if t == 0:  # the partial tensor only meets an operator that stays on the CPU, next to an accelerated one
            g.net.add_t("p", shp, dt, [0.1], [0])
            g.net.add_o(BO.POW, ["a", "z"], ["p"], "PowOptions", {}, 1)
            g.net.add_o(BO.ADD, ["p", "a"], ["o"], "AddOptions", dict(fused_activation_function=0), 2)
        elif t == 1:  # it is only passed on to a graph output by a CPU operator
            g.net.add_t("p", shp, dt, [0.25], [1 if dt != "int16" else 0]).omit = which
            g.net.add_o(BO.FLOOR_MOD, ["z", "z"], ["p"], "FloorModOptions", {}, 1)
            g.net.add_o(BO.ADD, ["a", "a"], ["o"], "AddOptions", dict(fused_activation_function=0), 2)
            g.net.outputs = ["p"]
        elif t == 2:  # it feeds an operator the accelerator could take
            g.net.add_o(BO.MUL, ["a", "z"], ["o"], "MulOptions", dict(fused_activation_function=0), 2)
        else:
            g.net.add_o(BO.MAXIMUM, ["z", "a"], ["o"], "MaximumMinimumOptions", {}, 1)
        outs = (g.net.outputs or []) + ["o"]
        g.net.outputs = []
    elif kind == 13:  # weight-carrying operator with one tensor lacking quantisation parameters
        sub = "partial-quant"
        dt = str(r.choice(["int8", "int8", "uint8"]))
        wdt = "uint8" if dt == "uint8" else "int8"
        h, w, c, oc = int(r.choice([1, 4, 6])), int(r.choice([1, 4])), int(r.choice([3, 8, 16])), int(r.choice([4, 8]))
        missing = str(r.choice(["weights", "weights", "bias", "ifm", "ofm", "weights+bias"]))
        op = str(r.choice(["conv", "conv", "fc", "dw"]))
        q = lambda name, sc, zp: (None, None) if name in missing.split("+") else (sc, zp)  # noqa: E731
        if op == "fc":
            sc, zp = q("ifm", [0.05], [0])
            g.net.add_t("in", [1, c], dt, sc, zp)
            sc, zp = q("weights", [0.01], [0 if wdt == "int8" else 128])
            g.const("w", (oc, c), wdt, g.rweights((oc, c)) + (0 if wdt == "int8" else 128), sc, zp)
            sc, zp = q("bias", [0.0005], [0])
            g.const("b", (oc,), "int32", r.integers(-100, 100, (oc,)), sc, zp)
            sc, zp = q("ofm", [0.1], [0])
            g.net.add_t("o", [1, oc], dt, sc, zp)
            g.net.add_o(BO.FULLY_CONNECTED, ["in", "w", "b"], ["o"], "FullyConnectedOptions", dict(fused_activation_function=0), 4)
        else:
            sc, zp = q("ifm", [0.05], [0])
            g.net.add_t("in", [1, h, w, c], dt, sc, zp)
            ocn = c if op == "dw" else oc
            wshape = (1, 1, 1, c) if op == "dw" else (oc, 1, 1, c)
            sc, zp = q("weights", [0.01], [0 if wdt == "int8" else 128])
            g.const("w", wshape, wdt, g.rweights(wshape) + (0 if wdt == "int8" else 128), sc, zp)
            sc, zp = q("bias", [0.0005], [0])
            g.const("b", (ocn,), "int32", r.integers(-100, 100, (ocn,)), sc, zp)
            sc, zp = q("ofm", [0.1], [0])
            g.net.add_t("o", [1, h, w, ocn], dt, sc, zp)
            if op == "dw":
                g.net.add_o(BO.DEPTHWISE_CONV_2D, ["in", "w", "b"], ["o"], "DepthwiseConv2DOptions",
                            dict(padding=PAD_SAME, stride_w=1, stride_h=1, depth_multiplier=1, dilation_w_factor=1, dilation_h_factor=1, fused_activation_function=0), 3)
            else:
                g.net.add_o(BO.CONV_2D, ["in", "w", "b"], ["o"], "Conv2DOptions",
                            dict(padding=PAD_SAME, stride_w=1, stride_h=1, dilation_w_factor=1, dilation_h_factor=1, fused_activation_function=0), 3)
        g.net.inputs.append("in")
        outs = ["o"]
    elif kind == 14:  # operators without their builtin-options table (every field then has its schema default)
        sub = "no-options"
        h, w, c = int(r.choice([1, 4, 6])), int(r.choice([1, 4])), int(r.choice([4, 8]))
        x = g.input([1, h, w, c])
        X = g.T(x)
        t = int(r.integers(0, 8))
        if t in (0, 1):
            oc = c if t == 1 else 8
            wshape = (1, 1, 1, c) if t == 1 else (oc, 1, 1, c)
            g.const("w", wshape, "int8", g.rweights(wshape), [0.01], [0])
            g.const("b", (oc,), "int32", r.integers(-100, 100, (oc,)), [float(np.float32(X.scale[0] * 0.01))], [0])
            g.act("o", (1, h, w, oc))
            g.net.add_o(BO.DEPTHWISE_CONV_2D if t == 1 else BO.CONV_2D, [x, "w", "b"], ["o"], None, None, 3)
        elif t == 2:
            g.act("o", (1, h, w, c), X.scale[0], X.zp[0])
            g.net.add_o(int(r.choice([BO.MAX_POOL_2D, BO.AVERAGE_POOL_2D])), [x], ["o"], None, None, 2)
        elif t == 3:
            g.act("o", (1, h, w, c))
            g.net.add_o(int(r.choice([BO.ADD, BO.SUB, BO.MUL])), [x, x], ["o"], None, None, 2)
        elif t == 4:
            g.net.add_t("o", [1, h * w * c], "int8", [1 / 256.0], [-128])
            g.const("shape", (2,), "int32", [1, h * w * c])
            g.net.add_o(BO.RESHAPE, [x, "shape"], ["o"], None, None, 1)
        elif t == 5:
            g.act("o", (1, h, w, 2 * c), X.scale[0], X.zp[0])
            g.net.add_o(BO.CONCATENATION, [x, x], ["o"], None, None, 2)
        elif t == 6:
            g.net.add_t("o", [1, h, w, c], "int8", [1 / 256.0], [-128])
            g.net.add_o(BO.SOFTMAX, [x], ["o"], None, None, 2)
        else:
            g.const("w", (5, c), "int8", g.rweights((5, c)), [0.01], [0])
            g.net.add_t("x2", [h * w, c], "int8", X.scale, X.zp)
            g.const("shape", (2,), "int32", [h * w, c])
            g.net.add_o(BO.RESHAPE, [x, "shape"], ["x2"], "ReshapeOptions", dict(new_shape=[h * w, c]), 1)
            g.act("o", (h * w, 5))
            g.net.add_o(BO.FULLY_CONNECTED, ["x2", "w", None], ["o"], None, None, 4)
        outs = ["o"]
    elif kind == 15:  # optional operands omitted (index -1), on operators that stay on the CPU as well as on accelerated ones
        sub = "omitted-optional-input"
        h, w, c = int(r.choice([1, 4])), int(r.choice([1, 4])), int(r.choice([4, 8]))
        t = int(r.integers(0, 4))
        if t == 0:  # float fully connected without bias (CPU)
            g.net.add_t("in", [2, c], "float32")
            g.const("w", (3, c), "float32", r.random((3, c)))
            g.net.add_t("o", [2, 3], "float32")
            g.net.add_o(BO.FULLY_CONNECTED, ["in", "w", None], ["o"], "FullyConnectedOptions", dict(fused_activation_function=0), 1)
            g.net.inputs.append("in")
        elif t == 1:  # quantised convolution without bias
            x = g.input([1, h, w, c])
            X = g.T(x)
            g.const("w", (8, 1, 1, c), "int8", g.rweights((8, 1, 1, c)), [0.01], [0])
            g.act("o", (1, h, w, 8))
            g.net.add_o(BO.CONV_2D, [x, "w", None], ["o"], "Conv2DOptions",
                        dict(padding=PAD_SAME, stride_w=1, stride_h=1, dilation_w_factor=1, dilation_h_factor=1, fused_activation_function=0), 3)
        elif t == 2:  # convolution the accelerator cannot take (stride 4) without bias -> CPU operator with an omitted operand
            x = g.input([1, 8, 8, c])
            g.const("w", (8, 1, 1, c), "int8", g.rweights((8, 1, 1, c)), [0.01], [0])
            g.act("o", (1, 2, 2, 8))
            g.net.add_o(BO.CONV_2D, [x, "w", None], ["o"], "Conv2DOptions",
                        dict(padding=PAD_VALID, stride_w=4, stride_h=4, dilation_w_factor=1, dilation_h_factor=1, fused_activation_function=0), 3)
        else:  # transpose convolution without bias
            x = g.input([1, h, w, c])
            g.const("w", (8, 2, 2, c), "int8", g.rweights((8, 2, 2, c)), [0.01], [0])
            g.const("oshape", (4,), "int32", [1, 2 * h, 2 * w, 8])
            g.act("o", (1, 2 * h, 2 * w, 8))
            g.net.add_o(BO.TRANSPOSE_CONV, ["oshape", "w", x, None] if r.integers(0, 2) else ["oshape", "w", x], ["o"], "TransposeConvOptions", dict(padding=PAD_SAME, stride_w=2, stride_h=2), 3)
        outs = ["o"]
    elif kind == 16:  # options tables whose numeric fields are zero / negative (e.g. a table with every field at its schema default)
        sub = "degenerate-options"
        h, w, c = int(r.choice([2, 4])), int(r.choice([2, 4])), int(r.choice([4, 8]))
        x = g.input([1, h, w, c])
        X = g.T(x)
        t = int(r.integers(0, 6))
        bad = int(r.choice([0, 0, -1]))
        if t in (0, 1):  # pooling
            opts = {} if t == 0 else dict(padding=int(r.integers(0, 2)), stride_w=int(r.choice([bad, 1])), stride_h=bad, filter_width=int(r.choice([0, 2])), filter_height=2, fused_activation_function=0)
            g.act("o", (1, h, w, c), X.scale[0], X.zp[0])
            g.net.add_o(int(r.choice([BO.MAX_POOL_2D, BO.AVERAGE_POOL_2D])), [x], ["o"], "Pool2DOptions", opts, 2)
        elif t in (2, 3, 4):  # convolutions: zero stride, zero dilation, empty table
            dw = t == 3
            ws = (1, 1, 1, c) if dw else (8, 1, 1, c)
            oc = c if dw else 8
            g.const("w", ws, "int8", g.rweights(ws), [0.01], [0])
            g.const("b", (oc,), "int32", r.integers(-100, 100, (oc,)), [float(np.float32(X.scale[0] * 0.01))], [0])
            g.act("o", (1, h, w, oc))
            v = int(r.integers(0, 3))
            opts = {} if v == 0 else dict(padding=PAD_SAME, stride_w=1 if v == 2 else bad, stride_h=1 if v == 2 else bad, dilation_w_factor=bad if v == 2 else 1, dilation_h_factor=bad if v == 2 else 1,
                                          fused_activation_function=0)
            if dw and v:
                opts["depth_multiplier"] = 1
            g.net.add_o(BO.DEPTHWISE_CONV_2D if dw else BO.CONV_2D, [x, "w", "b"], ["o"], "DepthwiseConv2DOptions" if dw else "Conv2DOptions", opts, 3)
        else:  # transpose convolution
            g.const("w", (8, 2, 2, c), "int8", g.rweights((8, 2, 2, c)), [0.01], [0])
            g.const("oshape", (4,), "int32", [1, 2 * h, 2 * w, 8])
            g.act("o", (1, 2 * h, 2 * w, 8))
            g.net.add_o(BO.TRANSPOSE_CONV, ["oshape", "w", x], ["o"], "TransposeConvOptions", dict(padding=PAD_SAME, stride_w=bad, stride_h=int(r.choice([bad, 2]))), 3)
        outs = ["o"]
    elif kind == 17:  # very deep operator chains (graph traversals are recursive; --recursion-limit defaults to 4000)
        sub = "deep-chain"
        n = int(r.choice([700, 1100, 1500, 2500]))
        if r.integers(0, 2):
            g.net.add_t("in", [1, 4], "float32")
            g.net.inputs.append("in")
            x = "in"
            for i in range(n):
                g.net.add_t("t%d" % i, [1, 4], "float32")
                g.net.add_o(BO.ABS, [x], ["t%d" % i], "AbsOptions", {}, 1)
                x = "t%d" % i
        else:
            x = g.input([1, 2, 2, 4])
            X = g.T(x)
            for i in range(n):
                g.act("t%d" % i, (1, 2, 2, 4), X.scale[0], X.zp[0])
                g.net.add_o(BO.ADD, [x, x], ["t%d" % i], "AddOptions", dict(fused_activation_function=0), 2)
                x = "t%d" % i
        outs = [x]
    elif kind == 18:  # pooling with a wide horizontal stride and a window of that size (average pools of this kind are lowered to convolutions)
        sub = "wide-stride-pool"
        dt = str(r.choice(["int8", "int8", "uint8", "int16"]))
        g.dtype = dt
        c = int(r.choice([1, 4, 8, 16]))
        sw, sh = int(r.choice([4, 4, 5, 6, 8])), int(r.choice([1, 2, 3]))
        hh, ww = sh * int(r.choice([1, 2, 4])), sw * int(r.choice([1, 2, 3]))
        x = g.input([1, hh, ww, c])
        pk = str(r.choice(["avgpool", "avgpool", "maxpool"]))
        y = g.pool(x, pk, min(hh, int(r.choice([sh, sh, 1, 2]))), sh, PAD_VALID if r.integers(0, 3) else PAD_SAME, kw=int(r.choice([sw, sw, 2])), stride_w=sw)
        if r.integers(0, 3) == 0:
            y = g.conv(y, 8, 1, 1, PAD_SAME, 0)
        outs = [y]
    elif kind == 19:  # operators with several outputs of which some are never used (neither consumed nor graph outputs)
        sub = "unused-outputs"
        dt = str(r.choice(["int8", "float32", "float32", "int16"]))
        h, w, c = int(r.choice([1, 4])), int(r.choice([2, 4])), int(r.choice([4, 8, 12]))
        q = ([0.05], [0]) if dt != "float32" else (None, None)
        g.net.add_t("in", [1, h, w, c], dt, *q)
        g.net.inputs.append("in")
        t = int(r.integers(0, 4))
        outs = []
        if t in (0, 1):  # SPLIT / SPLIT_V along the channels, some parts dropped
            n = int(r.choice([2, 4]))
            names = ["p%d" % i for i in range(n)]
            for nm_ in names:
                g.net.add_t(nm_, [1, h, w, c // n], dt, *q)
            g.const("ax", (), "int32", 3)
            if t == 0:
                g.net.add_o(BO.SPLIT, ["ax", "in"], names, "SplitOptions", dict(num_splits=n), 2)
            else:
                g.const("sizes", (n,), "int32", [c // n] * n)
                g.net.add_o(BO.SPLIT_V, ["in", "sizes", "ax"], names, "SplitVOptions", dict(num_splits=n), 2)
            used = [nm_ for nm_ in names if r.integers(0, 2)] or [names[-1]]
            if len(used) == n:
                used = used[1:]
            for nm_ in used:
                if r.integers(0, 2):
                    g.net.add_t(nm_ + "_r", [1, h, w, c // n], dt, *q)
                    g.net.add_o(BO.RELU, [nm_], [nm_ + "_r"], None, None, 1)
                    outs.append(nm_ + "_r")
                else:
                    outs.append(nm_)
        elif t == 2:  # UNPACK along the width, one slice used
            names = ["u%d" % i for i in range(w)]
            for nm_ in names:
                g.net.add_t(nm_, [1, h, c], dt, *q)
            g.net.add_o(BO.UNPACK, ["in"], names, "UnpackOptions", dict(num=w, axis=2), 1)
            outs = [names[int(r.integers(0, w))]]
        else:  # TOPK_V2: values or indices dropped; in front of / behind an accelerated operator
            k = int(r.choice([1, 2]))
            g.const("k", (), "int32", k)
            g.net.add_t("vals", [1, h, w, k], dt, *q)
            g.net.add_t("idx", [1, h, w, k], "int32")
            g.net.add_o(BO.TOPK_V2, ["in", "k"], ["vals", "idx"], "TopKV2Options", {}, 2)
            outs = ["idx"] if r.integers(0, 2) else ["vals"]
            if dt == "int8" and r.integers(0, 2):
                g.net.add_t("sum", [1, h, w, c], dt, [0.1], [0])
                g.net.add_o(BO.ADD, ["in", "in"], ["sum"], "AddOptions", dict(fused_activation_function=0), 2)
                outs.append("sum")
    else:  # custom operator + unsupported + supported sandwich
        sub = "custom-sandwich"
        x = g.input([1, 4, 4, 8])
        x = g.conv(x, 8, 1)
        if r.integers(0, 2):
            x = g.cpu_op(x, "custom")
        else:
            # a custom operator without any custom options vector (the field is optional)
            X = g.T(x)
            o = g.act(g.name("custom_o"), X.shape, X.scale[0], X.zp[0])
            g.net.add_o(BO.CUSTOM, [x], [o.name], None, None, 1, custom_code="VvBare", custom_options=None if r.integers(0, 2) else b"")
            x = o.name
        x = g.conv(x, 8, 3)
        outs = [x]
    net = g.finish(outs, "hostile:" + sub, "hostile", tol=None)
    return net


# ---------------------------------------------------------------------------------------------------------- operator zoo (options-table walk)
def _f(g, name, shape, dt="float32", data=None, q=False):
    t = g.net.add_t(name, list(shape), dt, [1.0], [0]) if q else g.net.add_t(name, list(shape), dt)
    if data is not None:
        t.data = np.ascontiguousarray(np.asarray(data, dtype=t.dtype).reshape(shape))
    return name


def _zoo_entries():
    """(builtin name, options table name, non-default option values, builder(g) -> (inputs, outputs)); float32 operands keep every instance on the CPU"""
    E = []

    def add(name, optn, opts, build, version=1):
        E.append((name, optn, opts, build, version))

    x4 = lambda g: _f(g, "x", (1, 4, 4, 8))  # noqa: E731
    add("CONCATENATION", "ConcatenationOptions", dict(axis=2, fused_activation_function=1), lambda g: ([x4(g), _f(g, "y", (1, 4, 4, 8))], [_f(g, "o", (1, 4, 8, 8))]))
    add("RESHAPE", "ReshapeOptions", dict(new_shape=[1, 16, 8]), lambda g: ([x4(g), _f(g, "s", (3,), "int32", [1, 16, 8])], [_f(g, "o", (1, 16, 8))]))
    # RESHAPEs that pass the semantic checks but not the accelerator's (32-bit / 64-bit tensors): CPU-resident by the second check, shape given with a -1
    add("RESHAPE", "ReshapeOptions", dict(new_shape=[1, -1]), lambda g: ([_f(g, "x", (1, 4, 4, 8), "int32", q=True), _f(g, "s", (2,), "int32", [1, -1])], [_f(g, "o", (1, 128), "int32", q=True)]))
    add("RESHAPE", "ReshapeOptions", dict(new_shape=[2, -1, 8]), lambda g: ([_f(g, "x", (1, 4, 4, 8), "int32", q=True)], [_f(g, "o", (2, 8, 8), "int32", q=True)]))
    add("SQUEEZE", "SqueezeOptions", dict(squeeze_dims=[0]), lambda g: ([_f(g, "x", (1, 4, 4, 8), "int32", q=True)], [_f(g, "o", (4, 4, 8), "int32", q=True)]))
    add("EXPAND_DIMS", "ExpandDimsOptions", {}, lambda g: ([_f(g, "x", (4, 4, 8), "int32", q=True), _f(g, "a", (), "int32", 0)], [_f(g, "o", (1, 4, 4, 8), "int32", q=True)]))
    add("PAD", "PadOptions", {}, lambda g: ([x4(g), _f(g, "p", (4, 2), "int32", [0, 0, 1, 1, 2, 0, 0, 0])], [_f(g, "o", (1, 6, 6, 8))]))
    add("PADV2", "PadV2Options", {}, lambda g: ([x4(g), _f(g, "p", (4, 2), "int32", [0, 0, 1, 1, 2, 0, 0, 0]), _f(g, "c", (1,), "float32", [0.5])], [_f(g, "o", (1, 6, 6, 8))]))
    add("MIRROR_PAD", "MirrorPadOptions", dict(mode=1), lambda g: ([x4(g), _f(g, "p", (4, 2), "int32", [0, 0, 1, 1, 2, 0, 0, 0])], [_f(g, "o", (1, 6, 6, 8))]))
    add("TRANSPOSE", "TransposeOptions", {}, lambda g: ([x4(g), _f(g, "p", (4,), "int32", [0, 2, 1, 3])], [_f(g, "o", (1, 4, 4, 8))]))
    for nm in ("MEAN", "SUM", "REDUCE_MAX", "REDUCE_MIN", "REDUCE_PROD"):
        add(nm, "ReducerOptions", dict(keep_dims=True), lambda g: ([x4(g), _f(g, "a", (2,), "int32", [1, 2])], [_f(g, "o", (1, 1, 1, 8))]))
    add("ARG_MAX", "ArgMaxOptions", dict(output_type=4), lambda g: ([x4(g), _f(g, "a", (), "int32", 3)], [_f(g, "o", (1, 4, 4), "int64")]))
    add("ARG_MIN", "ArgMinOptions", dict(output_type=2), lambda g: ([x4(g), _f(g, "a", (), "int32", 3)], [_f(g, "o", (1, 4, 4), "int32")]))
    add("GATHER", "GatherOptions", dict(axis=3, batch_dims=0), lambda g: ([x4(g), _f(g, "i", (3,), "int32", [0, 5, 2])], [_f(g, "o", (1, 4, 4, 3))]))
    add("SPLIT", "SplitOptions", dict(num_splits=2), lambda g: ([_f(g, "a", (), "int32", 3), x4(g)], [_f(g, "o", (1, 4, 4, 4)), _f(g, "o2", (1, 4, 4, 4))]), 2)
    add("SPLIT_V", "SplitVOptions", dict(num_splits=2), lambda g: ([x4(g), _f(g, "z", (2,), "int32", [3, 5]), _f(g, "a", (), "int32", 3)], [_f(g, "o", (1, 4, 4, 3)), _f(g, "o2", (1, 4, 4, 5))]), 2)
    add("STRIDED_SLICE", "StridedSliceOptions", dict(begin_mask=1, end_mask=2, ellipsis_mask=0, new_axis_mask=0, shrink_axis_mask=0),
        lambda g: ([x4(g), _f(g, "b", (4,), "int32", [0, 1, 0, 0]), _f(g, "e", (4,), "int32", [1, 3, 4, 8]), _f(g, "st", (4,), "int32", [1, 1, 1, 1])], [_f(g, "o", (1, 3, 4, 8))]))
    add("SLICE", "SliceOptions", {}, lambda g: ([x4(g), _f(g, "b", (4,), "int32", [0, 1, 0, 0]), _f(g, "z", (4,), "int32", [1, 2, 4, 8])], [_f(g, "o", (1, 2, 4, 8))]))
    add("SQUEEZE", "SqueezeOptions", dict(squeeze_dims=[0]), lambda g: ([x4(g)], [_f(g, "o", (4, 4, 8))]))
    add("EXPAND_DIMS", "ExpandDimsOptions", {}, lambda g: ([x4(g), _f(g, "a", (), "int32", 0)], [_f(g, "o", (1, 1, 4, 4, 8))]))
    add("TILE", "TileOptions", {}, lambda g: ([x4(g), _f(g, "m", (4,), "int32", [1, 2, 1, 1])], [_f(g, "o", (1, 8, 4, 8))]))
    add("PACK", "PackOptions", dict(values_count=2, axis=1), lambda g: ([x4(g), _f(g, "y", (1, 4, 4, 8))], [_f(g, "o", (1, 2, 4, 4, 8))]))
    add("UNPACK", "UnpackOptions", dict(num=4, axis=2), lambda g: ([x4(g)], [_f(g, "o%d" % i, (1, 4, 8)) for i in range(4)]))
    add("RESIZE_BILINEAR", "ResizeBilinearOptions", dict(align_corners=False, half_pixel_centers=True), lambda g: ([x4(g), _f(g, "z", (2,), "int32", [8, 8])], [_f(g, "o", (1, 8, 8, 8))]), 3)
    add("RESIZE_NEAREST_NEIGHBOR", "ResizeNearestNeighborOptions", dict(align_corners=True, half_pixel_centers=False), lambda g: ([x4(g), _f(g, "z", (2,), "int32", [7, 7])], [_f(g, "o", (1, 7, 7, 8))]), 3)
    add("SPACE_TO_DEPTH", "SpaceToDepthOptions", dict(block_size=2), lambda g: ([x4(g)], [_f(g, "o", (1, 2, 2, 32))]))
    add("DEPTH_TO_SPACE", "DepthToSpaceOptions", dict(block_size=2), lambda g: ([x4(g)], [_f(g, "o", (1, 8, 8, 2))]))
    for nm in ("AVERAGE_POOL_2D", "MAX_POOL_2D", "L2_POOL_2D"):
        add(nm, "Pool2DOptions", dict(padding=1, stride_w=2, stride_h=1, filter_width=2, filter_height=3, fused_activation_function=3), lambda g: ([x4(g)], [_f(g, "o", (1, 2, 2, 8))]), 2)
    add("CONV_2D", "Conv2DOptions", dict(padding=1, stride_w=2, stride_h=1, dilation_w_factor=1, dilation_h_factor=2, fused_activation_function=1),
        lambda g: ([x4(g), _f(g, "w", (4, 1, 1, 8), "float32", np.ones((4, 1, 1, 8))), _f(g, "b", (4,), "float32", np.zeros(4))], [_f(g, "o", (1, 4, 2, 4))]), 3)
    add("DEPTHWISE_CONV_2D", "DepthwiseConv2DOptions", dict(padding=0, stride_w=1, stride_h=2, depth_multiplier=1, dilation_w_factor=2, dilation_h_factor=1, fused_activation_function=3),
        lambda g: ([x4(g), _f(g, "w", (1, 1, 1, 8), "float32", np.ones((1, 1, 1, 8))), _f(g, "b", (8,), "float32", np.zeros(8))], [_f(g, "o", (1, 2, 4, 8))]), 3)
    add("FULLY_CONNECTED", "FullyConnectedOptions", dict(fused_activation_function=1, weights_format=0, keep_num_dims=True, asymmetric_quantize_inputs=False),
        lambda g: ([_f(g, "x", (2, 8)), _f(g, "w", (3, 8), "float32", np.ones((3, 8))), _f(g, "b", (3,), "float32", np.zeros(3))], [_f(g, "o", (2, 3))]), 5)
    add("TRANSPOSE_CONV", "TransposeConvOptions", dict(padding=1, stride_w=2, stride_h=2),
        lambda g: ([_f(g, "os", (4,), "int32", [1, 8, 8, 4]), _f(g, "w", (4, 2, 2, 8), "float32", np.ones((4, 2, 2, 8))), x4(g)], [_f(g, "o", (1, 8, 8, 4))]), 1)
    add("LOCAL_RESPONSE_NORMALIZATION", "LocalResponseNormalizationOptions", dict(radius=2, bias=0.5, alpha=0.25, beta=0.75), lambda g: ([x4(g)], [_f(g, "o", (1, 4, 4, 8))]))
    add("ONE_HOT", "OneHotOptions", dict(axis=-1), lambda g: ([_f(g, "i", (3,), "int32"), _f(g, "d", (), "int32", 4), _f(g, "on", (), "float32", 1.0), _f(g, "off", (), "float32", 0.0)], [_f(g, "o", (3, 4))]))
    add("CUMSUM", "CumsumOptions", dict(exclusive=True, reverse=False), lambda g: ([x4(g), _f(g, "a", (), "int32", 1)], [_f(g, "o", (1, 4, 4, 8))]))
    add("BATCH_TO_SPACE_ND", "BatchToSpaceNDOptions", {}, lambda g: ([_f(g, "x", (4, 2, 2, 8)), _f(g, "bs", (2,), "int32", [2, 2]), _f(g, "cr", (2, 2), "int32", [0, 0, 0, 0])], [_f(g, "o", (1, 4, 4, 8))]))
    add("SPACE_TO_BATCH_ND", "SpaceToBatchNDOptions", {}, lambda g: ([x4(g), _f(g, "bs", (2,), "int32", [2, 2]), _f(g, "pd", (2, 2), "int32", [0, 0, 0, 0])], [_f(g, "o", (4, 2, 2, 8))]))
    add("SELECT", "SelectOptions", {}, lambda g: ([_f(g, "c", (1, 4, 4, 8), "bool"), x4(g), _f(g, "y", (1, 4, 4, 8))], [_f(g, "o", (1, 4, 4, 8))]))
    add("SELECT_V2", "SelectV2Options", {}, lambda g: ([_f(g, "c", (1, 4, 4, 8), "bool"), x4(g), _f(g, "y", (1, 4, 4, 8))], [_f(g, "o", (1, 4, 4, 8))]))
    add("REVERSE_V2", "ReverseV2Options", {}, lambda g: ([x4(g), _f(g, "a", (1,), "int32", [2])], [_f(g, "o", (1, 4, 4, 8))]))
    add("TOPK_V2", "TopKV2Options", {}, lambda g: ([x4(g), _f(g, "k", (), "int32", 2)], [_f(g, "o", (1, 4, 4, 2)), _f(g, "oi", (1, 4, 4, 2), "int32")]))
    add("GATHER_ND", "GatherNdOptions", {}, lambda g: ([x4(g), _f(g, "i", (2, 1), "int32", [0, 0])], [_f(g, "o", (2, 4, 4, 8))]))
    add("FILL", "FillOptions", {}, lambda g: ([_f(g, "d", (2,), "int32"), _f(g, "v", (), "float32", 1.5)], [_f(g, "o", (2, 3))]))
    add("RANGE", "RangeOptions", {}, lambda g: ([_f(g, "a", (), "float32"), _f(g, "b", (), "float32"), _f(g, "c", (), "float32")], [_f(g, "o", (4,))]))
    add("BROADCAST_TO", "BroadcastToOptions", {}, lambda g: ([_f(g, "x", (1, 1, 4, 8)), _f(g, "s", (4,), "int32", [1, 4, 4, 8])], [_f(g, "o", (1, 4, 4, 8))]))
    return E


ZOO2 = None


def fam_zoo(seed, pick):
    """the pick-th entry of the second operator zoo as a single-operator float32 network (with a quantised ADD beside it so that an Ethos-U operator exists too)"""
    global ZOO2
    if ZOO2 is None:
        ZOO2 = _zoo_entries()
    name, optn, opts, build, version = ZOO2[int(pick) % len(ZOO2)]
    r = rng_for("zoo", seed)
    g = G(r, "int8")
    ins, outs = build(g)
    g.net.add_o(getattr(BO, name), ins, outs, optn, dict(opts), version)
    g.net.inputs += [i for i in ins if g.net.t(i).data is None]
    net_outs = list(outs)
    if r.integers(0, 2):
        a = g.input([1, 4, 4, 8])
        net_outs.append(g.eltwise("add", a, a))
    net = g.finish(net_outs, "hostile:zoo:" + name, "hostile", tol=None)
    return net


def zoo_size():
    global ZOO2
    if ZOO2 is None:
        ZOO2 = _zoo_entries()
    return len(ZOO2)
