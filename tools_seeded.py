#!/venv/bin/python
"""Evaluate a seeded change (mutation) against the checks.

  tools_seeded.py <seeded-dir-or-patch> [--checks C06,C01] [--tier quick] [--seeds 0] [--tree DIR] [--keep]

The change is applied to a scratch worktree of /repo (default /tmp/vv-seeded-eval-<pid>, created at /repo's HEAD, removed afterwards unless --keep is given together with --tree), the
checks run against it through VERIF_REPO with their outputs redirected (VERIF_OUT) so that the registered evidence of /verif is untouched, and the
verdict per check is printed: CAUGHT (exit 1 with an unlisted violation), held (exit 0), inconclusive (exit 2), error.
Also runs demo.py of the seeded directory on the changed and on the clean tree when present.
"""
import argparse
import json
import os
import shutil
import subprocess
import sys

VERIF = os.path.dirname(os.path.abspath(__file__))
PY = "/venv/bin/python"


def sh(cmd, **kw):
    return subprocess.run(cmd, capture_output=True, text=True, **kw)


def main():
    ap = argparse.ArgumentParser()
    ap.add_argument("target")
    ap.add_argument("--checks", default=None)
    ap.add_argument("--tier", default="quick")
    ap.add_argument("--seeds", default="0")
    ap.add_argument("--tree", default="/tmp/vv-seeded-eval-%d" % os.getpid(), help="scratch worktree (one per invocation, so that evaluations can run side by side)")
    ap.add_argument("--keep", action="store_true")
    ap.add_argument("--tests", action="store_true", help="also run the repository's own test suite on the changed tree")
    ap.add_argument("--adopt", default=None, help="copy patch.diff / demo.py / meta.json to /verif/seeded/<name>/ and record this evaluation in its meta.json")
    a = ap.parse_args()
    patch = os.path.abspath(a.target if a.target.endswith(".diff") else os.path.join(a.target, "patch.diff"))
    sdir = os.path.dirname(os.path.abspath(patch))
    meta = {}
    if os.path.exists(os.path.join(sdir, "meta.json")):
        meta = json.load(open(os.path.join(sdir, "meta.json")))
    checks = (a.checks or meta.get("property") or "").split(",")
    tree = a.tree
    if not os.path.isdir(tree):
        r = sh(["git", "-C", "/repo", "worktree", "add", "-q", "--detach", tree, "HEAD"])
        if r.returncode:
            print(r.stderr)
            return 3
    sh(["git", "-C", tree, "checkout", "-q", "--detach", sh(["git", "-C", "/repo", "rev-parse", "HEAD"]).stdout.strip()])
    sh(["git", "-C", tree, "checkout", "--", "."])
    out = os.path.join(tree + "-out")
    shutil.rmtree(out, ignore_errors=True)
    os.makedirs(out)
    env = dict(os.environ, VERIF_REPO=tree, VERIF_OUT=out, PYTHONHASHSEED="0")
    result = {"patch": patch, "checks": {}}
    try:
        demo = os.path.join(sdir, "demo.py")
        if os.path.exists(demo):
            r = sh([PY, demo], cwd=tree, env=dict(os.environ, PYTHONPATH=tree), timeout=1200)
            result["demo_clean"] = [l for l in r.stdout.splitlines() if l.startswith("PROPERTY")][:1] or [(r.stdout + r.stderr)[-300:]]
        r = sh(["git", "-C", tree, "apply", patch])
        if r.returncode:
            print("patch does not apply:", r.stderr)
            return 3
        if os.path.exists(demo):
            r = sh([PY, demo], cwd=tree, env=dict(os.environ, PYTHONPATH=tree), timeout=1200)
            result["demo_changed"] = [l for l in r.stdout.splitlines() if l.startswith("PROPERTY")][:1] or [(r.stdout + r.stderr)[-300:]]
        if a.tests:
            so = [f for f in os.listdir("/repo/ethosu") if f.endswith(".so")]
            for f in so:
                shutil.copy(os.path.join("/repo/ethosu", f), os.path.join(tree, "ethosu", f))
            r = sh([PY, "-m", "pytest", "-q", "-p", "no:cacheprovider", "--timeout=900", "ethosu"], cwd=tree, env=dict(os.environ, PYTHONPATH=tree))
            result["tests"] = (r.stdout.strip().splitlines() or ["?"])[-1]
            for f in so:
                os.remove(os.path.join(tree, "ethosu", f))
        for c in checks:
            for seed in a.seeds.split(","):
                r = sh([PY, os.path.join(VERIF, "check.py"), c, "--tier", a.tier, "--seed", seed], cwd=VERIF, env=env)
                lines = [l for l in r.stdout.splitlines() if not l.startswith("  ..")]
                mechs = [l.strip()[:300] for l in lines if l.strip().startswith("mech=")]
                summary = [l for l in lines if " tier=" in l]
                verdict = {0: "held", 1: "CAUGHT", 2: "inconclusive"}.get(r.returncode, "error rc=%d" % r.returncode)
                result["checks"]["%s/seed%s" % (c, seed)] = {"verdict": verdict, "mechs": mechs[:4], "summary": summary[-1:] if summary else [(r.stdout + r.stderr)[-400:]]}
                print("%s seed=%s -> %s" % (c, seed, verdict), flush=True)
                for m in mechs[:3]:
                    print("    " + m[:260])
                if verdict.startswith("error"):
                    print((r.stdout + r.stderr)[-600:])
    finally:
        sh(["git", "-C", tree, "checkout", "--", "."])
        shutil.rmtree(out, ignore_errors=True)
        if not a.keep or "--tree" not in sys.argv:
            sh(["git", "-C", "/repo", "worktree", "remove", "--force", tree])
    for k in ("demo_clean", "demo_changed", "tests"):
        if k in result:
            print(k, "=", str(result[k])[:300])
    print("RESULT " + json.dumps(result["checks"]))
    if a.adopt:
        dst = os.path.join(VERIF, "seeded", a.adopt)
        os.makedirs(dst, exist_ok=True)
        for f in ("patch.diff", "demo.py"):
            if os.path.exists(os.path.join(sdir, f)) and os.path.abspath(sdir) != os.path.abspath(dst):
                shutil.copy(os.path.join(sdir, f), os.path.join(dst, f))
        mp = os.path.join(dst, "meta.json")
        m = json.load(open(mp)) if os.path.exists(mp) else dict(meta)
        m.setdefault("origin", "fresh sub-agent given only the property text and a scratch worktree")
        conf = m.setdefault("confirmed_by_me", {})
        for k in ("demo_clean", "demo_changed", "tests"):
            if k in result:
                conf[k] = result[k][0][:400] if isinstance(result[k], list) else result[k]
        ev = m.setdefault("evaluation", {})
        for k, v in result["checks"].items():
            ev["%s/%s" % (k, a.tier)] = {"verdict": v["verdict"], "mechs": [x[:200] for x in v["mechs"][:3]]}
        m["repo_head_at_evaluation"] = sh(["git", "-C", "/repo", "rev-parse", "--short", "HEAD"]).stdout.strip()
        json.dump(m, open(mp, "w"), indent=1)
    return 0


if __name__ == "__main__":
    sys.exit(main())
