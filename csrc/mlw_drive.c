/* Sanitizer driver for the MLW codec (C07).  Built by /verif/checks/c07.py with clang -fsanitize=address,undefined against
 * /repo/ethosu/mlw_codec/mlw_encode.c and mlw_decode.c.  Reads framed test vectors, writes framed results.
 *
 * input records (all little-endian int32 unless noted):
 *   1, n, int16[n]                                               raw mlw_encode
 *   2, ifm_ub, ofm_ub, od, kh, kw, id, s0,s1,s2,s3, obd, dw, pk, bits, dh, dw2, nbuf, int16[nbuf]   mlw_reorder_encode
 * output records:
 *   int32 out_len, int64 padded_len, uint8[out_len], int32 ndec, int16[ndec]    (ndec = -1 when decoding was skipped)
 */
#include <stdint.h>
#include <stdio.h>
#include <stdlib.h>
#include <string.h>

#include "mlw_decode.h"
#include "mlw_encode.h"

static int rd32(FILE *f, int32_t *v) { return fread(v, 4, 1, f) == 1; }

int main(int argc, char **argv)
{
    if (argc < 3) { fprintf(stderr, "usage: mlw_drive in out\n"); return 2; }
    FILE *fi = fopen(argv[1], "rb");
    FILE *fo = fopen(argv[2], "wb");
    if (!fi || !fo) { perror("open"); return 2; }
    int32_t type;
    long nrec = 0;
    while (rd32(fi, &type))
    {
        uint8_t *out = NULL;
        int out_len = 0;
        int64_t padded = 0;
        if (type == 1)
        {
            int32_t n;
            if (!rd32(fi, &n)) return 3;
            int16_t *buf = (int16_t *)malloc(sizeof(int16_t) * (n > 0 ? n : 1));
            if (n > 0 && fread(buf, 2, n, fi) != (size_t)n) return 3;
            out_len = mlw_encode(buf, n, &out, 0);
            padded = n;
            free(buf);
        }
        else if (type == 2)
        {
            int32_t p[17];
            for (int i = 0; i < 17; i++) if (!rd32(fi, &p[i])) return 3;
            int32_t nbuf = p[16];
            int16_t *buf = (int16_t *)malloc(sizeof(int16_t) * (nbuf > 0 ? nbuf : 1));
            if (nbuf > 0 && fread(buf, 2, nbuf, fi) != (size_t)nbuf) return 3;
            int strides[4] = {p[6], p[7], p[8], p[9]};
            out_len = mlw_reorder_encode(p[0], p[1], p[2], p[3], p[4], p[5], strides, buf, p[10], p[11], p[12], p[13], p[14], p[15], &out, &padded, 0);
            free(buf);
        }
        else
        {
            fprintf(stderr, "bad record type %d\n", type);
            return 3;
        }
        int32_t ol = out_len;
        fwrite(&ol, 4, 1, fo);
        fwrite(&padded, 8, 1, fo);
        if (out_len > 0) fwrite(out, 1, out_len, fo);
        int32_t ndec = -1;
        int16_t *dec = NULL;
        if (out_len > 0)
        {
            ndec = mlw_decode(out, out_len, &dec, 0);
        }
        fwrite(&ndec, 4, 1, fo);
        if (ndec > 0) fwrite(dec, 2, ndec, fo);
        if (dec) free(dec);
        if (out) mlw_free_outbuf(out);
        nrec++;
    }
    fclose(fi);
    fclose(fo);
    fprintf(stderr, "mlw_drive: %ld records\n", nrec);
    return 0;
}
