#!/bin/bash
# tools_sweep.sh <tier> "<seeds>" [checks...] : run checks on the unchanged tree for several seeds with outputs redirected (VERIF_OUT), one summary line per run.
# Meant for `vp run -- ./tools_sweep.sh quick "1 2"`: hunting false alarms; nothing it writes is evidence.
cd "$(dirname "$0")"
tier=$1; seeds=$2; shift 2
checks=${@:-C01 C02 C03 C04 C05 C06 C07 C08 C09 C10 C11 C12 C13 C14 C15 C16 C17 C18 C19}
export VERIF_OUT=$PWD/.sweep-out
mkdir -p $VERIF_OUT/logs
for s in $seeds; do for c in $checks; do
  t0=$(date +%s)
  /venv/bin/python check.py $c --tier $tier --seed $s > $VERIF_OUT/logs/$c-$tier-$s.log 2>&1
  rc=$?
  echo "SWEEP $c tier=$tier seed=$s rc=$rc wall=$(( $(date +%s) - t0 ))s $(grep -a -c '^VIOLATION' $VERIF_OUT/logs/$c-$tier-$s.log) violations; $(grep -a '^KNOWN-FINDING' $VERIF_OUT/logs/$c-$tier-$s.log | wc -l) known; $(grep -a 'INCONCLUSIVE' $VERIF_OUT/logs/$c-$tier-$s.log | head -1 | cut -c1-160)"
  if [ $rc -ne 0 ]; then grep -a '^VIOLATION\|INCONCLUSIVE' $VERIF_OUT/logs/$c-$tier-$s.log | head -5 | cut -c1-300; fi
done; done
