#!/venv/bin/python
"""Regenerate the seeded-change table of DESIGN.md section 8.6 from seeded/*/meta.json (between the markers)."""
import glob
import json
import os

HERE = os.path.dirname(os.path.abspath(__file__))
rows = []
for d in sorted(glob.glob(os.path.join(HERE, "seeded", "*", ""))):
    n = os.path.basename(d.rstrip("/"))
    mp = os.path.join(d, "meta.json")
    if not os.path.exists(mp):
        continue
    m = json.load(open(mp))
    ev = m.get("evaluation", {})
    caught = sorted({k.split("/")[0] for k, v in ev.items() if v["verdict"] == "CAUGHT"})
    held = sorted({k.split("/")[0] for k, v in ev.items() if v["verdict"] == "held"} - set(caught))
    summ = (m.get("summary") or "")[:170].replace("|", "/").replace("\n", " ")
    files = ",".join(os.path.basename(f) for f in m.get("files", []))[:70]
    own = n.split("-")[0]
    mech = ""
    for k, v in ev.items():
        if k.startswith(own + "/") and v["verdict"] == "CAUGHT" and v["mechs"]:
            mech = v["mechs"][0].split(" occurrences")[0].replace("mech=", "")[:90]
    if m.get("retired"):
        rows.append("| %s | %s | %s | retired (no longer breaks the property) | %s | %s |" % (n, files, summ, ", ".join(held) or "-", m["retired"][:160].replace("|", "/")))
        continue
    rows.append("| %s | %s | %s | %s | %s | `%s` |" % (n, files, summ, ", ".join(caught), ", ".join(held) or "-", mech))
tbl = ("| seeded change | file(s) | what was changed | caught by (quick tier) | also run, silent | first mechanism reported by the property's own check |\n|---|---|---|---|---|---|\n" + "\n".join(rows))
p = os.path.join(HERE, "DESIGN.md")
s = open(p).read()
a, b = "<!-- seeded-table-begin -->", "<!-- seeded-table-end -->"
if a in s:
    s = s[: s.index(a) + len(a)] + "\n" + tbl + "\n" + s[s.index(b):]
else:
    start = s.index("| seeded change | file(s) |")
    end = s.index("\n\n", start)
    s = s[:start] + a + "\n" + tbl + "\n" + b + s[end:]
open(p, "w").write(s)
print("%d rows" % len(rows))
