# table consumed by tools_manifest.py
ENGINES = [
    {"name": "vv", "path": "vv/", "serves_properties": ["C13"], "kind_free_text": "runtime monitors: generators, independent flatbuffer reader/writer, compile drivers, sharded worker harness, evidence/findings"},
]
NOTES = ("Technique family: runtime monitoring and sanitizers. Every check runs the real code from /repo's working tree (codec rebuilt from the C "
         "sources on every run) under generated workloads with oracles observing executions; verdicts are violated / held-on-what-was-observed / "
         "inconclusive (exit 2, never 0). Known findings: known_findings.json.")

check("C13", "exploration",
      "Outcome classifier over real CLI runs (subprocess) and an in-process pre-screen (fresh forked process state per compile) on generated structurally "
      "valid models x option sets: every run must end in an output model or a Vela diagnostic with non-zero status; tracebacks, signal deaths, exit 0 without "
      "output, argparse rejection of valid options are violations keyed by (exception type, innermost repo frame).",
      "Models are structurally valid by construction (independent writer, re-parsed by an independent reader); generator families bound what is reached; "
      "wall-clock watchdogs are inconclusive.",
      "runtime outcome monitor (CLI exit status/stdout/stderr/files) over generated hostile models", "DESIGN.md 4/C13")
