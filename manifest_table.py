# table consumed by tools_manifest.py
ENGINES = [
    {"name": "vv", "path": "vv/", "serves_properties": ["C01", "C02", "C03", "C04", "C05", "C06", "C07", "C08", "C09", "C10", "C11", "C12", "C13", "C14", "C15", "C16", "C17", "C18", "C19"], "kind_free_text": "runtime monitors: generators, independent flatbuffer reader/writer, compile drivers, sharded worker harness, evidence/findings"},
]
NOTES = ("Technique family: runtime monitoring and sanitizers. Every check runs the real code from /repo's working tree (codec rebuilt from the C "
         "sources on every run) under generated workloads with oracles observing executions; verdicts are violated / held-on-what-was-observed / "
         "inconclusive (exit 2, never 0). Known findings: known_findings.json.")

check("C13", "exploration",
      "Outcome classifier over real CLI runs (subprocess) and an in-process pre-screen (fresh forked process state per compile) on generated structurally "
      "valid models x option sets: every run must end in an output model or a Vela diagnostic with non-zero status; tracebacks, signal deaths, exit 0 without "
      "output, argparse rejection of valid options are violations keyed by (exception type, innermost repo frame).",
      "Models are structurally valid by construction (independent writer, re-parsed by an independent reader); generator families bound what is reached; "
      "wall-clock watchdogs are inconclusive.",
      "runtime outcome monitor (CLI exit status/stdout/stderr/files) over generated hostile models", "DESIGN.md 4/C13")

check("C19", "exploration",
      "Reference-model monitor: (A) every fp_math helper is driven with Python ints and NumPy int8/16/32/64 scalars (boundary-biased, exhaustive int8 pairs, "
      "int16 x all shifts) against exact gemmlowp ports in unbounded ints - exceptions and NumPy warnings count as mismatches; (B) 8-bit activation tables "
      "captured by a hook on lut.create_lut_tensor during real compilations and read back from the output flash tensor, against a 60-digit real-function oracle "
      "(sigmoid/tanh) and the TFLite fixed-point kernels (leaky-relu, hard-swish); (C) QUANTIZE constant folding observed at the rewrite vs the reference kernel.",
      "Oracles are my own ports of gemmlowp/TFLite kernels; leaky-relu and hard-swish oracles are set-valued (float32- or float64-derived multipliers, or the "
      "correctly rounded real function); quantisation parameters are sampled.",
      "reference-model runtime monitor on hooked functions and direct drive", "DESIGN.md 4/C19")

check("C09", "exploration",
      "Reference-model monitor with exact rational arithmetic: quantise_scale / reduced_quantise_scale over a float32 mantissa sweep, all exponents, boundaries and "
      "random doubles (as python float, np.float64, np.float32): multiplier/shift ranges, 2^-31 (2^-14) relative error, value equality with a port of TFLite "
      "QuantizeMultiplier, zeroing outside the hardware range; quantise_pooling_scale for every window 1..1024 (+sampled to 65536) against rounded division on all "
      "reachable accumulators of small windows and ties beyond; add/sub/mul scale triples against the reference kernels' derivation. The emitted OFM_SCALE / OPA_SCALE / OPB_SCALE registers of ADD/SUB/MUL lists and of re-quantising average pools (fused QUANTIZE) are decoded from streams of the public generator and compared with the same derivations; packed scale records of real compilations likewise.",
      "Own ports of QuantizeMultiplier and of the add/sub/mul parameter derivations (MUL set-valued over float/double arithmetic); average-pool rounding oracle is "
      "TFLite's (half away from zero), equal to round-half-up for non-negative accumulators.",
      "reference-model runtime monitor (exact arithmetic) on direct drive of the real functions", "DESIGN.md 4/C09")

check("C05", "exploration",
      "Contract on the real allocators: Greedy, LinearAlloc and HillClimb are driven through their real entry points with real Tensor/LiveRange/LiveRangeGraph "
      "objects over exhaustive small live-range sets (all ordered pairs, stratified/exhaustive triples), random 4-5 range sets and random sets of 20-600 ranges x "
      "memory limits x iteration limits; an O(n^2) oracle with inclusive end times checks disjointness, alignment, reported total and the HillClimb peak bound; a "
      "hook on attempt_bottleneck_fix/allocate_indices asserts the iteration bound online; the same oracle wraps every allocator call of real compilations. LinearAlloc is also driven with duplicate constants (equal weight compression configs, equivalent lookup tables) at random positions: duplicates must share the first copy's address, everything else is disjoint, the total is the highest end.",
      "Reported total is accepted within the allocator's own alignment rounding (max_end <= total < max_end + granule); small scopes are bounded as stated in the evidence.",
      "runtime contract (oracle on return values) + online iteration-bound hook", "DESIGN.md 4/C05")

check("C17", "exploration",
      "Independent frame parser over api.npu_create_driver_payload for every length 0..600 (0..4096 thorough), boundary lengths around 2^16/2^17, random lengths, "
      "four word styles x 6 accelerators: COP1 tag, config action vs frozen per-accelerator constants, 16-byte alignment of the first command word, 24-bit length "
      "field, words unmodified little-endian, no trailing bytes; streams of 2^24 words and more must raise a Vela error; command-stream tensors of real output models "
      "are parsed the same way and must end in NPU_OP_STOP.",
      "Expected config/id words are frozen constants from the architecture description; the 2^24-1 accepted-boundary probe runs in the thorough tier only.",
      "runtime frame parser (offline checker over produced payloads)", "DESIGN.md 4/C17")

check("C18", "exploration",
      "Reference-model monitor: a resolver written from OPTIONS.md (transitive inherit with child override, defaults of 1, internal-default, CLI override only when "
      "given, Sram->OnChipFlash rewrite, validity rules) is compared attribute by attribute with ArchitectureFeatures built from generated .ini files (35% hostile: "
      "self-inheritance, cycles, missing parents, out-of-range sizes, illegal mappings, unknown sections) and with --verbose-config output of the real CLI invoked "
      "from three working directories with Dir/file.ini, absolute and generated configuration files.",
      "The resolver is my reading of OPTIONS.md; invalid configurations must raise a VelaError subclass (direct) or exit non-zero without traceback (CLI).",
      "reference-model runtime monitor on ArchitectureFeatures and CLI output", "DESIGN.md 4/C18")

check("C07", "exploration",
      "Round-trip monitor with sanitizers: every stream produced by ethosu.mlw_codec.encode / reorder_encode / api.npu_encode_weights (codec rebuilt from the working "
      "tree) is decoded by a frozen Python port of the stream format and compared with the source weights in the hardware traversal order computed by an independent "
      "reorder model (only zero padding allowed, length multiple of 16); exhaustive short sequences, 9 random distributions up to 70000 weights, random volumes x "
      "accelerator/bit-depth/block-depth/depthwise/traversal/dilation/kernel/NumPy-layout; coding-mode coverage is measured by the decoder and thresholded; the same "
      "vectors run through clang ASan+UBSan builds (with and without -DNDEBUG) of mlw_encode.c+mlw_decode.c; out-of-range probes must be rejected or round-trip.",
      "Sanitizers only see the vectors driven (red-zone detection); the reference decoder is cross-checked against the repository's C decoder each run.",
      "ASan/UBSan instrumented builds + round-trip reference-decoder monitor", "DESIGN.md 4/C07")

check("C06", "exploration",
      "Reference-model monitor on the emitted words: random legal operation lists (conv, depthwise, 3 pooling modes, 10 elementwise modes, DMA; 5 data types, both layouts, "
      "1-4 tiles, explicit strides, upscaling, table activations, 1 and 2 cores) with histories built to maximise register elision (single-field variants, repeats, A,B,A) go "
      "through api.npu_generate_register_command_stream; an independent decoder tracks the architectural register file and an independent expected-register model is compared "
      "field by field at every NPU_OP (regions, 4 bases, tiles, strides, shapes, zero points, precisions, kernel/stride/dilation bits, padding, per-core weight/scale ranges, "
      "activation, scaling, block config, IFM2 broadcast/scalar, DMA), SHRAM registers against the C15 oracle; structural clauses (one STOP last, waits attached); five classes "
      "of illegal input must raise; every direct stream is replayed through the kernel / DMA queue model of C04 (a conflict with an entry still outstanding is a missing wait); "
      "every stream of real compilations is decoded and compared with the API objects the pipeline built.",
      "The expected-register model is my reading of the ISA (DESIGN Appendix A); pooling OFM_SCALE is re-derived in C09 (quantreg part); ops for which no block config exists are skipped.",
      "runtime trace decoding + reference-model monitor", "DESIGN.md 4/C06")

check("C15", "exploration",
      "Contract on the public block-config query and on emitted registers: for random conv/depthwise/pool/elementwise requests x 6 accelerators every config offered by "
      "api.npu_find_block_configs must be a positive micro-block multiple within 32x64x128, be accepted by the command-stream generator for that operation, and the "
      "IFM_IB_END / IFM2_IB_START / AB_START / ACC_FORMAT registers the generator emits for it must describe ordered, non-overlapping partitions inside the bank count, "
      "outside the LUT banks when a table is used, each holding two blocks at the bank granule (independent SHRAM arithmetic from frozen tables); the same oracle runs on every "
      "kernel operation of real compilations.",
      "Minimum IFM block / granule tables are frozen hardware facts as I read them; 'large enough' is a >= test.",
      "runtime contract on query results + register oracle", "DESIGN.md 4/C15")

check("C04", "exploration",
      "Offline trace checker over decoded command streams (DESIGN Appendix D): both queues are simulated from the emitted KERNEL_WAIT/DMA_WAIT commands with the U55/U65 "
      "outstanding limits and every operation is tested at issue against all operations of the other queue that may still be outstanding, using exact byte footprints (tiles, "
      "strides, NHCWB16 bricks, consumed rows/cols, per-core weight ranges, SHRAM buffers and table slots); consecutive kernels are tested per block job for the overlap the "
      "emitted BLOCKDEP allows (true dependencies; the block pipeline is in order) plus the table-still-being-read clause. Workload: random DMA/kernel lists over a 2-4 buffer "
      "pool through the public generator, and every stream of real compilations. Conflicts that exist and are guarded are counted; a run without them is inconclusive.",
      "Execution and block-job model are my reading of the architecture (the one stated in the property); kernel-kernel WAR/WAW are ordered by the in-order block pipeline and "
      "are not hazards (DESIGN section 8).",
      "offline runtime trace checker (hazard simulation over recorded command streams)", "DESIGN.md 4/C04")

check("C02", "exploration",
      "Offline trace check over output artefacts: every command stream of every compiled model (campaign over 9 network families x accelerators x memory modes x strategies x "
      "cache sizes x allocators) is framed-parsed, decoded with architectural register tracking, and the exact byte footprint of every operation and DMA (tiles, strides, "
      "NHCWB16 bricks, consumed rows/columns, per-core weight and scale ranges, SHRAM buffers and table slots) is compared with the extents the output file publishes for the "
      "constants, scratch and fast-scratch tensors and with the accelerator's SHRAM size; writes to the constants region and a fast-scratch extent above the configured arena cache "
      "size in Dedicated-SRAM modes are violations.",
      "Region numbering follows the custom operator's input order; only bytes of elements actually consumed are counted, so an overrun by brick padding only is not reported.",
      "offline runtime trace checker (footprints of decoded command streams vs published extents)", "DESIGN.md 4/C02")

check("C12", "exploration",
      "Artefact checker over the same kind of campaign biased to CPU/NPU interleavings: OfflineMemoryAllocation offsets vs tensor sizes and lifetimes in the output operator order "
      "(pairwise overlap while live, NPU in-place updates at an Ethos-U operator excepted), --cpu-tensor-alignment, scratch tensor at offset 0, custom-operator inputs/outputs and "
      "every arena byte touched by the decoded command streams inside the scratch tensor, NPU writes not clobbering CPU tensors live across the operator, and the SRAM/DRAM figures "
      "parsed from the console summary and the summary CSV at least the extent the plan requires.",
      "Console figures are printed with two decimals: their display rounding (0.005 KiB) is tolerated; the CSV is judged exactly. Arena area per memory mode as documented.",
      "offline artefact checker (arena plan, lifetimes, footprints, reports)", "DESIGN.md 4/C12")

check("C03", "exploration",
      "Trace replay with shadow state over output artefacts: each compiled model is replayed operator by operator with a per-region 'defined' interval set; graph inputs and CPU "
      "operator outputs define their arena extents, every read of every decoded NPU operation and DMA (exact byte footprints incl. weights, scales and SHRAM table slots) must "
      "hit defined bytes only, writes define bytes, kernel buffers invalidate table slots they cover, and every output tensor of an Ethos-U operator must be completely written. "
      "Campaign over cascade-, buffering-, LUT- and alias-heavy families with small caches; reach counters (ops replayed, bytes checked, LUT DMAs/reads) are thresholded.",
      "Monitor 1 (defined-before-use) decides uninitialised and never-written bytes. Monitor 2 (writer tags: last writer per byte with the tensor identity / weight depth "
      "slice from the compiler's own stripe and DMA records) decides stale and foreign-tensor bytes, inside each stream and - with one arena shadow carried through graph "
      "inputs, CPU operators and all streams in execution order - across the operators of the inference. Monitor 3 executes the artefact twice under different poison patterns.",
      "offline trace replay with shadow memory (defined-before-use, last-writer tags, poison differential)", "DESIGN.md 4/C03, 8.6")

check("C11", "translation_validation",
      "Per-compilation artefact diff: source and output files are parsed by the independent flatbuffer reader; subgraph inputs/outputs must agree in order, name, shape, type and "
      "quantisation; every live source operator must be absorbed (none of its outputs produced by an output operator, or produced by an Ethos-U operator), folded to a constant, or "
      "present exactly once with identical opcode, version, builtin options (compared field by field through the generated accessor classes, absent table = all defaults), custom "
      "option bytes, operand wiring by tensor name, operand tensor signatures and byte-identical constant operands; operator order must respect data dependencies; the written file "
      "must be accepted by model_reader.read_model and by the plain reader. Campaign biased to CPU/NPU mixes, third-party custom ops, dynamic weights, multi-output graphs.",
      "Tensor identity is by name; 'absorbed' is decided from the artefact, not from the pipeline's own record.",
      "translation validation by artefact diff (independent parser)", "DESIGN.md 4/C11")

check("C14", "exploration",
      "History differential: sequences of 2-6 compilations are executed in one fresh process (A;A, A;B, adversarial twins sharing lookup-table contents / constants / tensor names, "
      "mixed entry points main / convert / convert_bytes, mixed accelerators, long random sequences, optionally with another user of the global random generator in between) and "
      "every step is compared - output bytes and summary CSV row - with a fresh-process CLI compilation of the same model and options; a step that fails only after a history is a "
      "violation; single compilations are repeated under other PYTHONHASHSEED values.",
      "Baseline = CLI in a fresh process with PYTHONHASHSEED=0; convert/convert_bytes are compared with the CLI options they hard-wire; models that do not compile alone are skipped.",
      "runtime history differential (process-level record/compare)", "DESIGN.md 4/C14")

check("C16", "exploration",
      "Report-vs-behaviour differential: the supported-operators report is generated by the real CLI and parsed into per-operator constraint sentences; hooks on every constraint "
      "function of TFLiteSemantic and TFLiteSupportedOperators record (operator, sentence, verdict) during real compilations; the sentences evaluated for an operator must be exactly "
      "those the report lists; placement read from the output artefact must follow the verdicts (all hold -> NPU, one fails -> CPU operator with unchanged opcode); independent "
      "predicates parsed from the report's own sentences judge single-operator networks sampled inside / on / just outside 14 documented numeric or type ranges and must agree "
      "with the compiler's verdict for that sentence.",
      "Sentences without an independent predicate are judged through the compiler's own verdict only (listed in the evidence); operators are matched to hook records by name.",
      "runtime hooks on constraint functions + report parser + placement oracle", "DESIGN.md 4/C16")

check("C10", "exploration",
      "Stripe geometry monitor: (A) Box.transform_with_strides_and_skirt is driven over an exhaustive small grid (OFM height 1..12 x every stripe height x kernel 1..8 x stride 1..3 x "
      "dilation 1..2 x SAME/VALID/explicit pads x write and read offsets, the skirt obtained from the real calc_padding_and_skirt) against an independent receptive-field function: "
      "start row, top/bottom padding and contained rows; (B) for every NpuStripe of real compilations (hook on generate_command_stream pairs each emitted op with its stripe) the "
      "OFM boxes of a pass must partition its write region, the decoded pad registers, implied IFM extent, OFM size and the stripe's IFM start row must be the receptive field "
      "of its OFM box under the operator's kernel/stride/dilation/padding/offsets, weight boxes must equal the OFM channel range, and rows of rolling buffers must still "
      "hold the expected row when a consumer stripe reads them (row-granular writer tags over decoded addresses).",
      "The IFM box may extend beyond the last consumed row; SAME/VALID operator padding is recomputed by the TFLite rule, explicit padding is taken from the fused PAD; upscaled, "
      "transpose-convolution and tile-aliased stripes are not judged by the receptive-field clause.",
      "runtime monitor on hooked stripes + exhaustive direct drive against a reference model", "DESIGN.md 4/C10")

check("C01", "translation_validation",
      "Per-compilation validation by executing the artefact: the source model runs under an independent NumPy TFLite reference interpreter (integer kernels with gemmlowp "
      "arithmetic); the output model runs operator by operator over a byte image of the tensor arena - CPU operators under the same interpreter, each Ethos-U operator by "
      "replaying its decoded command stream in an executable NPU model (DMA, conv/depthwise/FC from MLW-decoded weights and 10-byte scale records, pooling, elementwise with "
      "both operand-scaling modes, rounding modes, clamps, 8-bit table lookup, upscaling, 1-2 cores) over exactly the bytes stored in the output file; outputs are compared "
      "bit-exactly for the exact class and within 1 LSB for networks with one approximated operator at the tail, on 3 inputs x 2 arena poison patterns per network.",
      "The NPU model and the reference interpreter are the trusted base (DESIGN Appendix B/C, calibration notes in section 8); unmodelled modes (32-bit tables = softmax, hardware "
      "tanh/sigmoid) make a case inconclusive; inputs are sampled.",
      "translation validation by executing the emitted artefact in an executable hardware model", "DESIGN.md 4/C01")

check("C08", "exploration",
      "Contract on every return value of the real encode_weight_and_scale_tensor (wrapped from the harness): the tensor is parsed by its recorded ranges - key set = (core, slice) "
      "assignment, 16-byte alignment, stream order, disjointness, transfer size covers the range, double-buffer sizes bound the slices of their parity; the scale section must hold one "
      "10-byte record per assigned channel equal to the reference derivation; the weight section is decoded with the frozen MLW decoder and must equal the zero-point-corrected weights "
      "of exactly those channels in the hardware traversal order of the requesting operator; every cache hit is re-issued with the cache emptied and compared byte for byte. Workloads: "
      "direct-drive request sequences built to collide in the cache key (shared filter with other scales / same bias / other IFM width / conv vs transpose conv, re-slicing, 1-2 cores) "
      "and the same contract around all calls of real compilations with small caches.",
      "Depth-slice lists are those the scheduler builds (interior offsets multiples of 16); volumes above 90000 weights are checked for structure and scales only; requests are sampled.",
      "runtime contract on the real function with a decoding oracle and a cache-history monitor", "DESIGN.md 4/C08")

# ---- additions of the last session (appended to the texts above)
EXTRA_TEXT = {
    "C01": "Appended families: rank-changing memory-only operators (SQUEEZE / EXPAND_DIMS / PACK / UNPACK / SLICE / STRIDED_SLICE, split parts as both operands of a binary "
           "operator), EXP through an 8-bit table and SQUARED_DIFFERENCE (32-bit elementwise lowering, tolerance 1), grouped convolutions (reference kernel with groups); CPU / Ethos-U mixes are compared bit for bit when the reference met no approximated operator.",
    "C02": "The appended families of C01 and 24 UNIDIRECTIONAL_SEQUENCE_LSTM networks per run are footprint-checked too (LSTM findings keyed with the operator).",
    "C03": "Persistent-state (variable) tensors count as defined when the inference starts; the appended families of C01 and 24 LSTM networks per run are replayed too (LSTM findings keyed with the operator).",
    "C05": "Ranges are requested repeatedly with different alignments through LiveRangeGraph.get_or_create_range (the largest request is the requested alignment).",
    "C07": "The sanitizer vectors include dense palette-restart sequences (more than one new palette per 64 weights).",
    "C08": "A scale tensor of its own (weights shared with another operator) must be programmed at its own per-core range offsets.",
    "C09": "Scale inputs include exact ties of the multiplier rounding (doubles whose significand * 2^31 is m + 1/2).",
    "C10": "For binary elementwise operators each operand's input region must be the OFM region moved by that operand's own read offset.",
    "C11": "min / max vectors of quantisation tables are part of the compared tensor signature.",
    "C12": "Variable (persistent state) tensors are live for the whole inference (an Ethos-U operator may update its own state operands); LSTM networks included.",
    "C13": "Appended cases: the compiler's own output compiled again, grouped convolutions, UNIDIRECTIONAL_SEQUENCE_LSTM (findings keyed with the operator), "
           "rank-changing memory-only operators, EXP / SQUARED_DIFFERENCE.",
    "C14": "Histories include models whose interface lists repeat a tensor and models in which several tensors carry the same name.",
    "C19": "Near-twin tables (two LeakyReLUs whose tables differ in one or two entries) must both be found in the constants of the output file.",
    "C16": "Predicates for the two broadcast sentences; boundary networks with lower-rank second operands (variable and constant, either order) and a non-broadcastable pair; int8 convolutions with an asymmetric filter under three option sets.",
}
for _pid, _t in EXTRA_TEXT.items():
    CHECKS[_pid]["text"] += " " + _t
