#!/bin/bash
# tools_round_eval.sh <root> <Cxx> [extra checks e.g. ,C01] : confirm and evaluate the deliverables <root>/out/<Cxx>/m1, m2 of a seeded round and adopt them as seeded/<Cxx>-m<next>
cd "$(dirname "$0")"
root=$1; c=$2; extra=$3
for k in 1 2; do
  d=$root/out/$c/m$k
  [ -f $d/patch.diff ] || { echo "== $c m$k: no patch"; continue; }
  if [ -f $d/.adopted ]; then echo "== $c m$k already adopted as $(cat $d/.adopted)"; continue; fi
  last=$(ls -d seeded/$c-m* 2>/dev/null | sed 's/.*-m//' | sort -n | tail -1)
  n=$c-m$(( ${last:-0} + 1 ))
  echo "== $c m$k -> $n"
  ./tools_seeded.py $d --tests --adopt $n --checks $c$extra 2>&1 | grep -a "^C[0-9][0-9] seed\|    mech\|^demo_\|^tests\|apply" | cut -c1-260
  echo $n > $d/.adopted
done
