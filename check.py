#!/venv/bin/python
"""check.py <Cxx> [--tier quick|thorough] [--seed N] [--replay path]"""
import importlib
import os
import sys

sys.path.insert(0, os.path.dirname(os.path.abspath(__file__)))
os.environ.setdefault("PYTHONHASHSEED", "0")
os.environ.setdefault("OMP_NUM_THREADS", "1")
os.environ.setdefault("OPENBLAS_NUM_THREADS", "1")

from vv import harness  # noqa: E402


def main():
    if len(sys.argv) < 2:
        print(__doc__)
        return 2
    pid = sys.argv[1].upper()
    mod = importlib.import_module("checks." + pid.lower())
    return harness.main_for(mod, sys.argv[2:])


if __name__ == "__main__":
    sys.exit(main())
