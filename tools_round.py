#!/venv/bin/python
"""Prepare one round of seeded-change sub-agents.

  tools_round.py prepare <root> [C01 C02 ...]   -> <root>/wt/<id> (git worktree of /repo HEAD + codec .so), <root>/out/<id>/{property.json,PROMPT.txt}
  tools_round.py cleanup <root>                 -> remove the worktrees and <root>

The prompt is seeded/AGENT_PROMPT.txt with the property text and the list of changes already tried for that property
(summaries of seeded/<id>-m*/meta.json), so that a new round has to look for other mechanisms.  Nothing from /verif
other than the property text and those summaries is given to a sub-agent.
"""
import glob
import json
import os
import shutil
import subprocess
import sys

VERIF = os.path.dirname(os.path.abspath(__file__))


def props():
    return {json.loads(l)["id"]: json.loads(l) for l in open(os.path.join(VERIF, "properties.jsonl")) if l.strip()}


def avoid_text(pid):
    rows = []
    for d in sorted(glob.glob(os.path.join(VERIF, "seeded", pid + "-m*"))):
        try:
            m = json.load(open(os.path.join(d, "meta.json")))
        except Exception:
            continue
        rows.append("  * %s: %s" % (", ".join(os.path.basename(f) for f in m.get("files", [])), (m.get("summary") or "")[:260].replace("\n", " ")))
    if not rows:
        return ""
    return (
        "\nThe following changes have ALREADY been tried by others for this property; do not repeat them or close variants of them - "
        "look for a different mechanism, preferably in a different function or file, and prefer changes that need a MULTI-STEP SEQUENCE, "
        "an UNUSUAL INPUT CLASS, or TWO COOPERATING SITES that each look fine alone:\n" + "\n".join(rows) + "\n"
    )


def prepare(root, ids):
    P = props()
    tmpl = open(os.path.join(VERIF, "seeded", "AGENT_PROMPT.txt")).read()
    so = glob.glob("/repo/ethosu/mlw_codec*.so")
    for pid in ids:
        wt = os.path.join(root, "wt", pid)
        out = os.path.join(root, "out", pid)
        os.makedirs(out, exist_ok=True)
        if not os.path.isdir(wt):
            os.makedirs(os.path.dirname(wt), exist_ok=True)
            subprocess.check_call(["git", "-C", "/repo", "worktree", "add", "-q", "--detach", wt, "HEAD"])
            for s in so:
                shutil.copy(s, os.path.join(wt, "ethosu"))
        ptxt = json.dumps(P[pid], indent=1)
        open(os.path.join(out, "property.json"), "w").write(ptxt)
        prompt = tmpl.replace("__WT__", wt).replace("__OUT__", out).replace("__PROPERTY__", ptxt).replace("__AVOID__", avoid_text(pid))
        open(os.path.join(out, "PROMPT.txt"), "w").write(prompt)
        print(pid, wt, out, len(prompt))


def cleanup(root):
    for wt in glob.glob(os.path.join(root, "wt", "*")):
        subprocess.call(["git", "-C", "/repo", "worktree", "remove", "--force", wt])
    shutil.rmtree(root, ignore_errors=True)
    subprocess.call(["git", "-C", "/repo", "worktree", "prune"])


if __name__ == "__main__":
    if sys.argv[1] == "prepare":
        prepare(sys.argv[2], sys.argv[3:] or sorted(props()))
    elif sys.argv[1] == "cleanup":
        cleanup(sys.argv[2])
